(* Model of asyncfix/protocol/order_single.py : class FIXNewOrderSingle (C17).

   Every method is a total function  order -> order * res _ : the new object state and either the
   returned value or the class of the exception raised (Python methods mutate the object before
   some of their raise sites, so the state is returned in both cases).

   Numbers.  price / qty / cum / leaves / avg are exact rationals written as Z multiples of a fixed
   unit (the harness uses 1/4): the object only copies them, compares them for equality, tests
   `== 0` and parses them with float().  `nan` (initial avg_px, omitted replace arguments) is None.
   Status values are the one-character wire codes (N code points) of OrderStatus.v; `o_senum`
   records whether the Python attribute currently holds an FOrdStatus member (true) or a plain str
   (false): the two compare and hash equal everywhere except `.name` (used by __repr__).

   `legacy` selects the code of process_cancel_rej_report:
     legacy = true   the method as found (status := reported str, ids untouched)        [finding D17]
     legacy = false  with fixes/C17-cancel-reject-restores-ids.patch (status := FOrdStatus(..),
                     clord_id := orig_clord_id, orig_clord_id := None)
   The harness probes the implementation once to select the variant.

   No proofs in this file. *)
From Coq Require Import ZArith NArith List Bool.
From AF Require Import Base.Sx Py.Str Fix.OrderStatus.
Import ListNotations.
Open Scope N_scope.

Inductive exn := EFIXError | EAssertion | EValueError | EAttribute.
Inductive res (A : Type) := Ok (a : A) | Exc (e : exn).
Arguments Ok {A} a.
Arguments Exc {A} e.

(* ------------------------------------------------------------------ ClOrdID chain *)

Definition DASH : N := 45.

Fixpoint take_digits (s : str) : str :=
  match s with
  | c :: s' => if is_digit c then c :: take_digits s' else []
  | [] => []
  end.
Fixpoint drop_digits (s : str) : str :=
  match s with
  | c :: s' => if is_digit c then drop_digits s' else s
  | [] => []
  end.

(* RE_CLORD_ROOT = ^(.+)--(\d+)$ with re.match, on newline-free text with ASCII digits only:
   the trailing maximal digit run must be non-empty and preceded by "--" and a non-empty prefix;
   group 1 is that prefix.  No match: the text itself. *)
Definition clord_root (s : str) : str :=
  let rs := rev s in
  match take_digits rs, drop_digits rs with
  | _ :: _, a :: b :: c :: p =>
      if (a =? DASH) && (b =? DASH) then rev (c :: p) else s
  | _, _ => s
  end.

Definition clord_id_of (root : str) (k : N) : str := root ++ [DASH; DASH] ++ n_to_dec k.

(* ------------------------------------------------------------------ the object *)

Record order := mkO {
  o_clord : str;
  o_orig : option str;
  o_order_id : option str;
  o_ticker : str;
  o_side : str;
  o_price : Z;
  o_qty : Z;
  o_leaves : Z;
  o_cum : Z;
  o_avg : option Z;          (* None = nan *)
  o_ordtype : str;
  o_account : str;
  o_cnt : N;
  o_status : N;
  o_senum : bool;
  o_target : Z
}.

Definition set_ids (o : order) (clord : str) (orig : option str) (cnt : N) : order :=
  mkO clord orig (o_order_id o) (o_ticker o) (o_side o) (o_price o) (o_qty o) (o_leaves o) (o_cum o)
      (o_avg o) (o_ordtype o) (o_account o) cnt (o_status o) (o_senum o) (o_target o).
Definition set_status (o : order) (st : N) (en : bool) : order :=
  mkO (o_clord o) (o_orig o) (o_order_id o) (o_ticker o) (o_side o) (o_price o) (o_qty o) (o_leaves o)
      (o_cum o) (o_avg o) (o_ordtype o) (o_account o) (o_cnt o) st en (o_target o).
Definition set_leaves (o : order) (l : Z) : order :=
  mkO (o_clord o) (o_orig o) (o_order_id o) (o_ticker o) (o_side o) (o_price o) (o_qty o) l
      (o_cum o) (o_avg o) (o_ordtype o) (o_account o) (o_cnt o) (o_status o) (o_senum o) (o_target o).
Definition set_fill (o : order) (oid : str) (leaves cum avg : Z) : order :=
  mkO (o_clord o) (o_orig o) (Some oid) (o_ticker o) (o_side o) (o_price o) (o_qty o) leaves
      cum (Some avg) (o_ordtype o) (o_account o) (o_cnt o) (o_status o) (o_senum o) (o_target o).
Definition set_replaced (o : order) (px qty : option Z) : order :=
  mkO (o_clord o) None (o_order_id o) (o_ticker o) (o_side o)
      (match px with Some p => p | None => o_price o end)
      (match qty with Some q => q | None => o_qty o end)
      (o_leaves o) (o_cum o) (o_avg o) (o_ordtype o) (o_account o) (o_cnt o) (o_status o) (o_senum o)
      (o_target o).

(* __init__ : `assert clord_id` *)
Definition init_order (clord ticker side : str) (price qty : Z) (ordtype account : str)
           (target : option Z) : res order :=
  match clord with
  | [] => Exc EAssertion
  | _ => Ok (mkO clord None None ticker side price qty 0%Z 0%Z None ordtype account 0 CREATED true
                 (match target with Some t => t | None => price end))
  end.

(* clord_next : increments the counter, f"{root}--{cnt}" *)
Definition clord_next (o : order) : N * str :=
  let k := o_cnt o + 1 in (k, clord_id_of (clord_root (o_clord o)) k).

(* `not self.orig_clord_id` is False exactly for a non-empty string *)
Definition truthy (s : option str) : bool :=
  match s with Some (_ :: _) => true | _ => false end.

Definition can_cancel (o : order) : bool := OrderStatus.can_cancel (o_status o).
Definition can_replace (o : order) : bool := OrderStatus.can_replace (o_status o).
Definition is_finished (o : order) : bool := OrderStatus.is_finished (o_status o).

(* ------------------------------------------------------------------ messages *)

Inductive req :=
| RNew (clid : str) (px qty : Z)
| RCancel (clid orig : str) (qty : Z)
| RReplace (clid orig : str) (px qty : Z).

Record erep := mkE {
  e_clid : str; e_orig : option str; e_oid : str; e_ex : N; e_st : N;
  e_cum : Z; e_leaves : Z; e_avg : Z; e_px : option Z; e_qty : option Z
}.
Inductive rep := RExec (e : erep) | RRej (clid orig : str) (st : N).

(* ------------------------------------------------------------------ request builders *)

Definition new_req (o : order) : order * res req :=
  if negb (o_status o =? CREATED) then (o, Exc EAssertion)
  else
    let (k, id) := clord_next o in
    let o1 := set_status (set_ids o id (o_orig o) k) PENDING_NEW true in
    (o1, Ok (RNew id (o_price o) (o_qty o))).

(* the FIXError text of cancel_req interpolates repr(self), which needs status.name *)
Definition cancel_req (o : order) : order * res req :=
  if negb (can_cancel o) then (o, Exc (if o_senum o then EFIXError else EAttribute))
  else if truthy (o_orig o) then (o, Exc EAssertion)
  else
    let (k, id) := clord_next o in
    let o1 := set_status (set_ids o id (Some (o_clord o)) k) PENDING_CANCEL true in
    (o1, Ok (RCancel id (o_clord o) (o_qty o))).

Definition replace_req (o : order) (price qty : option Z) : order * res req :=
  if negb (can_replace o) then (o, Exc EFIXError)
  else
    let p := match price with Some p => p | None => o_price o end in
    let q := match qty with Some q => if (q =? 0)%Z then o_qty o else q | None => o_qty o end in
    if (p =? o_price o)%Z && (q =? o_qty o)%Z then (o, Exc EFIXError)
    else if truthy (o_orig o) then (o, Exc EAssertion)
    else
      let (k, id) := clord_next o in
      let o1 := set_status (set_ids o id (Some (o_clord o)) k) PENDING_REPLACE true in
      (o1, Ok (RReplace id (o_clord o) p q)).

(* ------------------------------------------------------------------ report processing *)

Definition opt_str_eqb (a : str) (b : option str) : bool :=
  match b with Some b' => str_eqb a b' | None => false end.

Definition process_execution_report (o : order) (r : rep) : order * res bool :=
  match r with
  | RRej _ _ _ => (o, Exc EFIXError)
  | RExec e =>
      if negb (str_eqb (e_clid e) (o_clord o)) && negb (opt_str_eqb (e_clid e) (o_orig o))
      then (o, Exc EFIXError)
      else
        let ns := change_status (o_status o) K_EXECUTIONREPORT (e_ex e) (e_st e) false in
        let o1 := set_fill o (e_oid e) (e_leaves e) (e_cum e) (e_avg e) in
        let o2 := if e_ex e =? X_REPLACED then set_replaced o1 (e_px e) (e_qty e) else o1 in
        if ns =? T then
          if mem (e_st e) all_statuses then (set_status o2 (e_st e) true, Ok true)
          else (o2, Exc EValueError)                       (* FOrdStatus(new_status) *)
        else (o2, Ok false)
  end.

Definition process_cancel_rej_report (legacy : bool) (o : order) (r : rep) : order * res bool :=
  match r with
  | RExec _ => (o, Exc EFIXError)
  | RRej _ _ st =>
      let ns := change_status (o_status o) K_ORDERCANCELREJECT 0 st false in
      let o1 := if st =? REJECTED then set_leaves o 0%Z else o in
      if ns =? T then
        if legacy then (set_status o1 st false, Ok true)
        else if mem st all_statuses then
          let o2 := set_status o1 st true in
          let o3 := if truthy (o_orig o2)
                    then set_ids o2 (match o_orig o2 with Some x => x | None => [] end) None (o_cnt o2)
                    else o2 in
          (o3, Ok true)
        else (o1, Exc EValueError)
      else (o1, Ok false)
  end.

(* what a connection's on_message does with an order report: dispatch on the message type *)
Definition process_report (legacy : bool) (o : order) (r : rep) : order * res bool :=
  match r with
  | RExec _ => process_execution_report o r
  | RRej _ _ _ => process_cancel_rej_report legacy o r
  end.
