(* Rendering of tester messages as tag-text / value-text lists, and the exact decimal printer for binary
   fractions (C20).  Kept free of generated tables so that the extracted runner does not depend on them.
   No proofs here.

   [print_q k z]: exact decimal expansion of z / 2^k: sign, integer part, '.', the k fraction digits with
   trailing zeros removed but at least one kept - what Python's str(float) prints for a binary fraction with at
   most 15 significant decimal digits in plain notation (tied in harness/c20.py on the exact stream, k = 12). *)
From Coq Require Import ZArith NArith List Bool.
From AF Require Import Base.Sx Py.Str Fix.Tester.
Import ListNotations.
Open Scope N_scope.

Definition render_val (pr : Z -> str) (v : val) : str := match v with VS s => s | VQ z => pr z end.
Definition flat (pr : Z -> str) (m : msg) : list (str * str) :=
  map (fun f => (n_to_dec (fst f), render_val pr (snd f))) m.
(* ---------------------------------------------------------------- the decimal printer *)

Fixpoint drop_zeros (s : str) : str :=
  match s with c :: r => if c =? 48 then drop_zeros r else s | [] => [] end.
(* remove trailing zeros, keep at least one digit *)
Definition strip_trailing (s : str) : str :=
  match rev (drop_zeros (rev s)) with [] => [48] | x => x end.
Definition pad_left (k : nat) (s : str) : str := repeat 48 (k - length s) ++ s.

Definition frac_digits (k : nat) (r : N) : str :=
  strip_trailing (pad_left k (n_to_dec (r * 5 ^ N.of_nat k))).

Definition print_q (k : nat) (z : Z) : str :=
  let a := Z.abs_N z in
  let d := 2 ^ N.of_nat k in
  (if (z <? 0)%Z then [45] else []) ++ n_to_dec (a / d) ++ [46] ++ frac_digits k (a mod d).

