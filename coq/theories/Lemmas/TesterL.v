(* Proofs about the tester model Fix/Tester.v (C20). *)
From Coq Require Import ZArith NArith List Bool Lia ZifyBool Sorting.Sorted FinFun.
From AF Require Import Base.Sx Py.Str Fix.OrderStatus Fix.Tester.
Import ListNotations.
Open Scope Z_scope.

(* ================================================================ str(int) is injective *)

Lemma n_to_dec_fuel_eq f n acc :
  n_to_dec_fuel (S f) n acc =
  let acc' := digit_char (n mod 10) :: acc in
  if (n / 10 =? 0)%N then acc' else n_to_dec_fuel f (n / 10) acc'.
Proof. cbn [n_to_dec_fuel]. unfold N.div, N.modulo. now destruct (N.div_eucl n 10). Qed.

Fixpoint lsd (f : nat) (n : N) : list N :=
  match f with
  | O => []
  | S f' => digit_char (n mod 10) :: (if (n / 10 =? 0)%N then [] else lsd f' (n / 10))
  end.

Lemma n_to_dec_fuel_lsd f n acc : n_to_dec_fuel f n acc = rev (lsd f n) ++ acc.
Proof.
  revert n acc. induction f as [|f IH]; intros n acc; [reflexivity|].
  rewrite n_to_dec_fuel_eq. cbn [lsd rev]. destruct (n / 10 =? 0)%N.
  - reflexivity.
  - rewrite IH, <- app_assoc. reflexivity.
Qed.

Fixpoint lval (l : list N) : N :=
  match l with [] => 0%N | c :: l' => ((c - 48) + 10 * lval l')%N end.

Fixpoint p2 (k : nat) : N := match k with O => 1%N | S k' => (2 * p2 k')%N end.

Lemma size_nat_bound n : (n < p2 (N.size_nat n))%N.
Proof.
  destruct n as [|p]; [cbn; lia|]. cbn [N.size_nat].
  induction p as [p IH|p IH|]; cbn [Pos.size_nat p2]; lia.
Qed.

Lemma lval_lsd f n : (n < p2 f)%N -> lval (lsd f n) = n.
Proof.
  revert n. induction f as [|f IH]; intros n H; cbn [p2] in H; [cbn; lia|].
  cbn [lsd lval]. unfold digit_char. pose proof (N.div_mod n 10 ltac:(lia)) as D.
  pose proof (N.mod_lt n 10 ltac:(lia)) as M.
  destruct (n / 10 =? 0)%N eqn:E.
  - apply N.eqb_eq in E. cbn [lval]. rewrite E in D. clear E. set (r := (n mod 10)%N) in *. clearbody r. lia.
  - rewrite IH; [|apply N.div_lt_upper_bound; lia].
    clear E IH. set (r := (n mod 10)%N) in *. set (q := (n / 10)%N) in *. clearbody q r. lia.
Qed.

Lemma n_to_dec_lsd n : n_to_dec n = rev (lsd (S (N.size_nat n)) n).
Proof. unfold n_to_dec. rewrite n_to_dec_fuel_lsd. apply app_nil_r. Qed.

Lemma n_to_dec_inj n m : n_to_dec n = n_to_dec m -> n = m.
Proof.
  rewrite !n_to_dec_lsd. intros H. apply (f_equal (@rev N)) in H. rewrite !rev_involutive in H.
  apply (f_equal lval) in H. rewrite !lval_lsd in H; [exact H| |];
    (eapply N.lt_le_trans; [apply size_nat_bound|cbn [p2]; lia]).
Qed.

Lemma lsd_digits f n : Forall (fun c => (48 <= c <= 57)%N) (lsd f n).
Proof.
  revert n. induction f as [|f IH]; intros n; cbn [lsd]; constructor.
  - unfold digit_char. pose proof (N.mod_lt n 10 ltac:(lia)) as M.
    set (r := (n mod 10)%N) in *. clearbody r. lia.
  - destruct (n / 10 =? 0)%N; [constructor|apply IH].
Qed.

Lemma n_to_dec_digits n : Forall (fun c => (48 <= c <= 57)%N) (n_to_dec n).
Proof. rewrite n_to_dec_lsd. apply Forall_rev. apply lsd_digits. Qed.

Lemma n_to_dec_nonempty n : n_to_dec n <> [].
Proof.
  rewrite n_to_dec_lsd. cbn [lsd rev]. intros H. apply app_eq_nil in H. destruct H; discriminate.
Qed.

Lemma n_to_dec_head n : exists c s, n_to_dec n = c :: s /\ (48 <= c <= 57)%N.
Proof.
  pose proof (n_to_dec_digits n) as D. pose proof (n_to_dec_nonempty n) as E.
  destruct (n_to_dec n) as [|c s]; [congruence|]. inversion D; subst. now exists c, s.
Qed.

Lemma z_to_dec_inj a b : z_to_dec a = z_to_dec b -> a = b.
Proof.
  assert (Z0 : forall q, [48%N] <> n_to_dec (Npos q)).
  { intros q H. change [48%N] with (n_to_dec 0) in H. apply n_to_dec_inj in H. discriminate. }
  assert (NEG : forall p s, n_to_dec p <> 45%N :: s).
  { intros p s H. destruct (n_to_dec_head p) as (c & s' & E & R). rewrite E in H. inversion H; lia. }
  destruct a as [|p|p], b as [|q|q]; cbn [z_to_dec]; intros H; try reflexivity.
  - now apply Z0 in H.
  - discriminate.
  - symmetry in H. now apply Z0 in H.
  - apply n_to_dec_inj in H. congruence.
  - now apply NEG in H.
  - discriminate.
  - symmetry in H. now apply NEG in H.
  - inversion H as [H1]. apply n_to_dec_inj in H1. congruence.
Qed.

Lemma str_eqb_eq a b : str_eqb a b = true <-> a = b.
Proof.
  unfold str_eqb. revert b. induction a as [|x a IH]; intros [|y b]; cbn; split; intros H; try reflexivity; try discriminate.
  - apply andb_true_iff in H as (H1 & H2). apply N.eqb_eq in H1. apply IH in H2. congruence.
  - inversion H; subst. rewrite N.eqb_refl. cbn. now apply IH.
Qed.

Lemma str_eqb_refl a : str_eqb a a = true.
Proof. now apply str_eqb_eq. Qed.

(* ================================================================ shape of an accepted call *)

(* the tester state after the OrderID step (fixes/R12b: one id per root ClOrdID) and the id it yields *)
Definition ids_state (t : tstate) (o : order) : tstate :=
  match o_oid o with None => snd (order_id_for t (root_of o)) | Some _ => t end.
Definition oid_num (t : tstate) (o : order) : Z := fst (order_id_for t (root_of o)).

Definition order_id_text (t : tstate) (o : order) : str :=
  match o_oid o with None => z_to_dec (oid_num t o) | Some s => s end.

Definition after_ids (t : tstate) (o : order) : tstate :=
  let t1 := ids_state t o in mkT (t_oid t1) (t_eid t + 1) (t_reg t) (t_oids t1).

Definition report (t : tstate) (o : order) (a : eargs) (clord : str) (oq cum leaves price : Z) (last : msg) : msg :=
  ([(T_ClOrdID, VS clord); (T_OrderID, VS (order_id_text t o)); (T_ExecID, VS (z_to_dec (t_eid t + 1)))]
   ++ opt_field T_OrigClOrdID (a_orig a)
   ++ [(T_ExecType, VS [a_exec a]); (T_OrdStatus, VS [a_status a]); (T_Side, VS (o_side o))])
  ++ [(T_CumQty, VQ cum); (T_LeavesQty, VQ leaves)] ++ last
  ++ [(T_Symbol, VS (o_ticker o)); (T_Price, VQ price); (T_OrderQty, VQ oq);
      (T_AvgPx, VQ (a_avg a)); (T_Account, VS (o_account o))].

(* the function, with the id bookkeeping folded into order_id_text / after_ids *)
Lemma fix_exec_unfold u t o a :
  fix_exec_report_msg u t o a =
  if negb (registered t (o_clord o)) then AssertionFailed t else
  match a_clord a with
  | None | Some [] => AssertionFailed t
  | Some (c :: cs) =>
    if (a_status a =? CREATED)%N then AssertionFailed t else
    match resolve_qtys o a with
    | None => AssertionFailed (after_ids t o)
    | Some (oq, cum, leaves) =>
      match trade_fields u o a cum with
      | None => AssertionFailed (after_ids t o)
      | Some last =>
        match resolve_price o a with
        | None => AssertionFailed (after_ids t o)
        | Some price =>
          if pending_cancel_ok o a cum leaves && finished_ok a leaves
          then Ok (report t o a (c :: cs) oq cum leaves price last) (after_ids t o)
          else AssertionFailed (after_ids t o)
        end
      end
    end
  end.
Proof.
  unfold fix_exec_report_msg, report, order_id_text, after_ids, ids_state, oid_num, order_id_for,
    next_order_id, next_exec_id.
  destruct (negb (registered t (o_clord o))); [reflexivity|].
  destruct (a_clord a) as [[|c cs]|]; try reflexivity.
  destruct (a_status a =? CREATED)%N; [reflexivity|].
  destruct (o_oid o) as [s|]; [|destruct (lookup (root_of o) (t_oids t))]; cbn [fst snd t_oid t_eid t_reg t_oids];
  (destruct (resolve_qtys o a) as [[[oq cum] leaves]|]; [|reflexivity];
   destruct (trade_fields u o a cum) as [last|]; [|reflexivity];
   destruct (resolve_price o a) as [price|]; reflexivity).
Qed.

Lemma exec_ok_inv u t o a m t' :
  fix_exec_report_msg u t o a = Ok m t' ->
  exists clord oq cum leaves price last,
    registered t (o_clord o) = true /\
    a_clord a = Some clord /\ clord <> [] /\
    resolve_qtys o a = Some (oq, cum, leaves) /\
    trade_fields u o a cum = Some last /\
    resolve_price o a = Some price /\
    pending_cancel_ok o a cum leaves = true /\
    finished_ok a leaves = true /\
    t' = after_ids t o /\
    m = report t o a clord oq cum leaves price last.
Proof.
  rewrite fix_exec_unfold. intros H.
  destruct (registered t (o_clord o)) eqn:R; cbn [negb] in H; [|discriminate].
  destruct (a_clord a) as [[|c cs]|] eqn:C; try discriminate.
  destruct (a_status a =? CREATED)%N; [discriminate|].
  destruct (resolve_qtys o a) as [[[oq cum] leaves]|] eqn:Q; [|discriminate].
  destruct (trade_fields u o a cum) as [last|] eqn:TF; [|discriminate].
  destruct (resolve_price o a) as [price|] eqn:P; [|discriminate].
  destruct (pending_cancel_ok o a cum leaves) eqn:PC; cbn [andb] in H; [|discriminate].
  destruct (finished_ok a leaves) eqn:F; [|discriminate].
  inversion H; subst. exists (c :: cs), oq, cum, leaves, price, last.
  repeat split; try reflexivity; try assumption; discriminate.
Qed.

(* fixes/R12a: the library-internal status is never put on the wire *)
Lemma exec_status_not_created u t o a m t' :
  fix_exec_report_msg u t o a = Ok m t' -> a_status a <> CREATED.
Proof.
  rewrite fix_exec_unfold. intros H E.
  destruct (negb (registered t (o_clord o))); [discriminate|].
  destruct (a_clord a) as [[|c cs]|]; try discriminate.
  rewrite E in H. discriminate.
Qed.

(* conversely: exactly these conditions make the helper return a message *)
Lemma exec_ok_intro u t o a clord oq cum leaves price last :
  registered t (o_clord o) = true -> a_clord a = Some clord -> clord <> [] -> a_status a <> CREATED ->
  resolve_qtys o a = Some (oq, cum, leaves) -> trade_fields u o a cum = Some last ->
  resolve_price o a = Some price -> pending_cancel_ok o a cum leaves = true -> finished_ok a leaves = true ->
  fix_exec_report_msg u t o a = Ok (report t o a clord oq cum leaves price last) (after_ids t o).
Proof.
  intros R C NE ST Q TF P PC F. rewrite fix_exec_unfold. rewrite R, C. cbn [negb].
  destruct clord as [|c cs]; [congruence|].
  apply N.eqb_neq in ST. rewrite ST, Q, TF, P, PC, F. reflexivity.
Qed.

Lemma exec_accepts_iff u t o a m t' :
  fix_exec_report_msg u t o a = Ok m t' <->
  exists clord oq cum leaves price last,
    registered t (o_clord o) = true /\ a_clord a = Some clord /\ clord <> [] /\ a_status a <> CREATED /\
    resolve_qtys o a = Some (oq, cum, leaves) /\ trade_fields u o a cum = Some last /\
    resolve_price o a = Some price /\ pending_cancel_ok o a cum leaves = true /\ finished_ok a leaves = true /\
    t' = after_ids t o /\ m = report t o a clord oq cum leaves price last.
Proof.
  split.
  - intros H. pose proof (exec_status_not_created _ _ _ _ _ _ H) as ST.
    apply exec_ok_inv in H as (clord & oq & cum & leaves & price & last & R & C & NE & Q & TF & P & PC & F & E1 & E2).
    exists clord, oq, cum, leaves, price, last. repeat split; assumption.
  - intros (clord & oq & cum & leaves & price & last & R & C & NE & ST & Q & TF & P & PC & F & -> & ->).
    now apply exec_ok_intro.
Qed.

Lemma exec_fail_state u t o a t' :
  fix_exec_report_msg u t o a = AssertionFailed t' ->
  t' = t \/ t' = after_ids t o.
Proof.
  rewrite fix_exec_unfold. intros H.
  destruct (registered t (o_clord o)); cbn [negb] in H; [|inversion H; now left].
  destruct (a_clord a) as [[|c cs]|]; try (inversion H; now left).
  destruct (a_status a =? CREATED)%N; [inversion H; now left|].
  destruct (resolve_qtys o a) as [[[oq cum] leaves]|]; [|inversion H; now right].
  destruct (trade_fields u o a cum) as [last|]; [|inversion H; now right].
  destruct (resolve_price o a) as [price|]; [|inversion H; now right].
  destruct (pending_cancel_ok o a cum leaves && finished_ok a leaves); inversion H; now right.
Qed.

(* the OrderID step: counters and the root -> id map *)
Lemma order_id_for_spec t root :
  let '(n, t') := order_id_for t root in
  t_eid t' = t_eid t /\ t_reg t' = t_reg t /\ lookup root (t_oids t') = Some n /\
  match lookup root (t_oids t) with
  | Some v => n = v /\ t' = t
  | None => n = t_oid t + 1 /\ t_oid t' = t_oid t + 1 /\ t_oids t' = t_oids t ++ [(root, n)]
  end.
Proof.
  unfold order_id_for, next_order_id. destruct (lookup root (t_oids t)) as [v|] eqn:L; cbn [t_oid t_eid t_reg t_oids].
  - rewrite L. repeat split.
  - repeat split. clear -L. induction (t_oids t) as [|[k v] l IH]; cbn [app lookup] in *.
    + now rewrite str_eqb_refl.
    + destruct (str_eqb k root); [discriminate|]. now apply IH.
Qed.

Lemma lookup_app_keep k l e v : lookup k l = Some v -> lookup k (l ++ [e]) = Some v.
Proof.
  induction l as [|[k' v'] l IH]; cbn [app lookup]; [discriminate|].
  destruct (str_eqb k' k); [auto|exact IH].
Qed.

Lemma opt_field_shape tag o :
  (opt_field tag o = [] /\ truthy o = false) \/
  (exists s, opt_field tag o = [(tag, VS s)] /\ o = Some s /\ truthy o = true).
Proof. destruct o as [[|c s]|]; cbn; [now left| right; now exists (c :: s) | now left]. Qed.

Lemma trade_fields_shape u o a cum last :
  trade_fields u o a cum = Some last ->
  (last = [] /\ a_last a = None /\ a_exec a <> X_TRADE) \/
  (exists l, last = [(T_LastQty, VQ l)] /\ a_last a = Some l /\ a_exec a = X_TRADE /\ 0 < l /\
             2000 * Z.abs (l - (cum - o_cum o)) <= u).
Proof.
  unfold trade_fields, round3_zero. destruct (a_last a) as [l|].
  - destruct (a_exec a =? X_TRADE)%N eqn:E; cbn [andb]; [|discriminate].
    destruct (0 <? l) eqn:L; cbn [andb]; [|discriminate].
    destruct (2000 * Z.abs (l - (cum - o_cum o)) <=? u) eqn:R; [|discriminate].
    intros H; inversion H; subst. right. exists l. apply N.eqb_eq in E. repeat split; try assumption; lia.
  - destruct (a_exec a =? X_TRADE)%N eqn:E; [discriminate|]. intros H; inversion H. left.
    apply N.eqb_neq in E. now repeat split.
Qed.

Lemma resolve_qtys_spec o a oq cum leaves :
  resolve_qtys o a = Some (oq, cum, leaves) ->
  cum + leaves <= oq /\
  (match a_oqty a with None => oq = o_qty o | Some q => q = oq /\ 0 < oq /\ a_exec a = X_REPLACED end) /\
  (match a_cum a with None => cum = o_cum o | Some c => c = cum /\ 0 <= cum <= o_qty o end) /\
  (match a_leaves a with None => leaves = o_leaves o | Some l => l = leaves /\ 0 <= leaves <= oq end).
Proof.
  unfold resolve_qtys, resolve_order_qty, resolve_cum, resolve_leaves. intros H.
  destruct (a_oqty a) as [q|].
  - destruct (a_exec a =? X_REPLACED)%N eqn:E; cbn [andb] in H; [|discriminate].
    destruct (0 <? q) eqn:Q; [|discriminate]. apply N.eqb_eq in E.
    destruct (a_cum a) as [c|].
    + destruct ((c <=? o_qty o) && (0 <=? c)) eqn:C; [|discriminate].
      destruct (a_leaves a) as [l|].
      * destruct ((0 <=? l) && (l <=? q)) eqn:LL; [|discriminate].
        destruct (c + l <=? q) eqn:S; [|discriminate]. inversion H; subst. repeat split; try assumption; lia.
      * destruct (c + o_leaves o <=? q) eqn:S; [|discriminate]. inversion H; subst. repeat split; try assumption; lia.
    + destruct (a_leaves a) as [l|].
      * destruct ((0 <=? l) && (l <=? q)) eqn:LL; [|discriminate].
        destruct (o_cum o + l <=? q) eqn:S; [|discriminate]. inversion H; subst. repeat split; try assumption; lia.
      * destruct (o_cum o + o_leaves o <=? q) eqn:S; [|discriminate]. inversion H; subst. repeat split; try assumption; lia.
  - destruct (a_cum a) as [c|].
    + destruct ((c <=? o_qty o) && (0 <=? c)) eqn:C; [|discriminate].
      destruct (a_leaves a) as [l|].
      * destruct ((0 <=? l) && (l <=? o_qty o)) eqn:LL; [|discriminate].
        destruct (c + l <=? o_qty o) eqn:S; [|discriminate]. inversion H; subst. repeat split; try assumption; lia.
      * destruct (c + o_leaves o <=? o_qty o) eqn:S; [|discriminate]. inversion H; subst. repeat split; try assumption; lia.
    + destruct (a_leaves a) as [l|].
      * destruct ((0 <=? l) && (l <=? o_qty o)) eqn:LL; [|discriminate].
        destruct (o_cum o + l <=? o_qty o) eqn:S; [|discriminate]. inversion H; subst. repeat split; try assumption; lia.
      * destruct (o_cum o + o_leaves o <=? o_qty o) eqn:S; [|discriminate]. inversion H; subst. repeat split; try assumption; lia.
Qed.

(* reading a report back *)
Ltac shapes a last TF :=
  let OF := fresh "OF" in
  destruct (opt_field_shape T_OrigClOrdID (a_orig a)) as [[OF _]|(? & OF & _ & _)];
  destruct (trade_fields_shape _ _ _ _ _ TF) as [(-> & _ & _)|(? & -> & _ & _ & _ & _)];
  unfold report; rewrite OF.

Lemma report_get t o a clord oq cum leaves price last u :
  trade_fields u o a cum = Some last ->
  let m := report t o a clord oq cum leaves price last in
  get_s T_ClOrdID m = Some clord /\
  get_s T_OrderID m = Some (order_id_text t o) /\
  get_s T_ExecID m = Some (z_to_dec (t_eid t + 1)) /\
  get_s T_ExecType m = Some [a_exec a] /\
  get_s T_OrdStatus m = Some [a_status a] /\
  get_s T_Side m = Some (o_side o) /\
  get_q T_CumQty m = Some cum /\
  get_q T_LeavesQty m = Some leaves /\
  get_s T_Symbol m = Some (o_ticker o) /\
  get_q T_Price m = Some price /\
  get_q T_OrderQty m = Some oq /\
  get_q T_AvgPx m = Some (a_avg a) /\
  get_s T_Account m = Some (o_account o).
Proof.
  intros TF. shapes a last TF; cbn; repeat split; reflexivity.
Qed.

Definition tags_of (m : msg) : list N := map fst m.

Definition expected_tags (a : eargs) : list N :=
  [T_ClOrdID; T_OrderID; T_ExecID] ++ (if truthy (a_orig a) then [T_OrigClOrdID] else [])
  ++ [T_ExecType; T_OrdStatus; T_Side; T_CumQty; T_LeavesQty]
  ++ (if (a_exec a =? X_TRADE)%N then [T_LastQty] else [])
  ++ [T_Symbol; T_Price; T_OrderQty; T_AvgPx; T_Account].

Lemma report_tags t o a clord oq cum leaves price last u :
  trade_fields u o a cum = Some last ->
  tags_of (report t o a clord oq cum leaves price last) = expected_tags a.
Proof.
  intros TF. unfold expected_tags.
  destruct (opt_field_shape T_OrigClOrdID (a_orig a)) as [[OF TR]|(s & OF & _ & TR)];
  destruct (trade_fields_shape _ _ _ _ _ TF) as [(-> & _ & NE)|(l & -> & _ & E & _ & _)];
  unfold report; rewrite OF, TR.
  - apply N.eqb_neq in NE. rewrite NE. reflexivity.
  - rewrite E. reflexivity.
  - apply N.eqb_neq in NE. rewrite NE. reflexivity.
  - rewrite E. reflexivity.
Qed.

Lemma expected_tags_nodup a : NoDup (expected_tags a).
Proof.
  unfold expected_tags. destruct (truthy (a_orig a)), (a_exec a =? X_TRADE)%N; cbn;
  repeat (constructor; [cbn; intuition discriminate|]); constructor.
Qed.

(* ================================================================ the theorems of Props/C20.v *)

(* --- arithmetic constraints of every fabricated report --- *)

Lemma exec_sum u t o a m t' :
  fix_exec_report_msg u t o a = Ok m t' ->
  exists cum leaves oq,
    get_q T_CumQty m = Some cum /\ get_q T_LeavesQty m = Some leaves /\ get_q T_OrderQty m = Some oq /\
    cum + leaves <= oq.
Proof.
  intros H. apply exec_ok_inv in H as (clord & oq & cum & leaves & price & last & _ & _ & _ & Q & TF & _ & _ & _ & _ & ->).
  pose proof (report_get t o a clord oq cum leaves price last u TF) as G. cbn zeta in G.
  exists cum, leaves, oq. apply resolve_qtys_spec in Q. intuition.
Qed.

Lemma exec_nonneg u t o a m t' :
  fix_exec_report_msg u t o a = Ok m t' ->
  0 <= o_cum o -> 0 <= o_leaves o ->
  exists cum leaves, get_q T_CumQty m = Some cum /\ get_q T_LeavesQty m = Some leaves /\ 0 <= cum /\ 0 <= leaves.
Proof.
  intros H HC HL. apply exec_ok_inv in H as (clord & oq & cum & leaves & price & last & _ & _ & _ & Q & TF & _ & _ & _ & _ & ->).
  pose proof (report_get t o a clord oq cum leaves price last u TF) as G. cbn zeta in G.
  exists cum, leaves. apply resolve_qtys_spec in Q as (_ & _ & C & L).
  destruct (a_cum a), (a_leaves a); intuition lia.
Qed.

(* explicit arguments are always checked; only the defaults rely on the order *)
Lemma exec_nonneg_explicit u t o a m t' c l :
  fix_exec_report_msg u t o a = Ok m t' -> a_cum a = Some c -> a_leaves a = Some l ->
  get_q T_CumQty m = Some c /\ get_q T_LeavesQty m = Some l /\ 0 <= c /\ 0 <= l.
Proof.
  intros H HC HL. apply exec_ok_inv in H as (clord & oq & cum & leaves & price & last & _ & _ & _ & Q & TF & _ & _ & _ & _ & ->).
  pose proof (report_get t o a clord oq cum leaves price last u TF) as G. cbn zeta in G.
  apply resolve_qtys_spec in Q as (_ & _ & C & L). rewrite HC in C. rewrite HL in L.
  destruct C as (-> & ?), L as (-> & ?). intuition lia.
Qed.

Lemma exec_finished u t o a m t' :
  fix_exec_report_msg u t o a = Ok m t' ->
  In (a_status a) [FILLED; CANCELED; REJECTED; EXPIRED] ->
  get_q T_LeavesQty m = Some 0.
Proof.
  intros H HS. apply exec_ok_inv in H as (clord & oq & cum & leaves & price & last & _ & _ & _ & _ & TF & _ & _ & F & _ & ->).
  pose proof (report_get t o a clord oq cum leaves price last u TF) as G. cbn zeta in G.
  unfold finished_ok, finished, mem in F.
  assert (E : existsb (N.eqb (a_status a)) [FILLED; CANCELED; REJECTED; EXPIRED] = true).
  { apply existsb_exists. exists (a_status a). split; [assumption|apply N.eqb_refl]. }
  rewrite E in F. apply Z.eqb_eq in F. subst leaves. intuition.
Qed.

(* --- ids --- *)

Lemma after_ids_facts t o :
  t_eid (after_ids t o) = t_eid t + 1 /\ t_reg (after_ids t o) = t_reg t /\
  t_oid t <= t_oid (after_ids t o) <= t_oid t + 1 /\
  (forall k v, lookup k (t_oids t) = Some v -> lookup k (t_oids (after_ids t o)) = Some v) /\
  match o_oid o with
  | Some s => order_id_text t o = s /\ t_oid (after_ids t o) = t_oid t /\ t_oids (after_ids t o) = t_oids t
  | None =>
      lookup (root_of o) (t_oids (after_ids t o)) = Some (oid_num t o) /\ order_id_text t o = z_to_dec (oid_num t o) /\
      match lookup (root_of o) (t_oids t) with
      | Some v => oid_num t o = v /\ t_oid (after_ids t o) = t_oid t /\ t_oids (after_ids t o) = t_oids t
      | None => oid_num t o = t_oid t + 1 /\ t_oid (after_ids t o) = t_oid t + 1 /\
                t_oids (after_ids t o) = t_oids t ++ [(root_of o, t_oid t + 1)]
      end
  end.
Proof.
  unfold after_ids, ids_state, order_id_text, oid_num. cbn [t_oid t_eid t_reg t_oids].
  destruct (o_oid o) as [s|].
  - repeat split; try lia. auto.
  - pose proof (order_id_for_spec t (root_of o)) as S.
    destruct (order_id_for t (root_of o)) as [n t1]. cbn [fst snd]. destruct S as (_ & _ & L & S).
    destruct (lookup (root_of o) (t_oids t)) as [v|] eqn:E.
    + destruct S as (-> & ->). repeat split; try lia; auto.
    + destruct S as (-> & S1 & S2). rewrite S1, S2. repeat split; try lia; auto.
      * intros k v Hk. now apply lookup_app_keep.
      * now rewrite <- S2.
Qed.

Lemma exec_ids u t o a m t' :
  fix_exec_report_msg u t o a = Ok m t' ->
  get_s T_ExecID m = Some (z_to_dec (t_eid t + 1)) /\ t_eid t' = t_eid t + 1 /\ t_reg t' = t_reg t /\
  match o_oid o with
  | Some s => get_s T_OrderID m = Some s /\ t_oid t' = t_oid t /\ t_oids t' = t_oids t
  | None =>
      match lookup (root_of o) (t_oids t) with
      | Some v => get_s T_OrderID m = Some (z_to_dec v) /\ t_oid t' = t_oid t /\ t_oids t' = t_oids t
      | None => get_s T_OrderID m = Some (z_to_dec (t_oid t + 1)) /\ t_oid t' = t_oid t + 1 /\
                t_oids t' = t_oids t ++ [(root_of o, t_oid t + 1)]
      end
  end.
Proof.
  intros H. apply exec_ok_inv in H as (clord & oq & cum & leaves & price & last & _ & _ & _ & _ & TF & _ & _ & _ & -> & ->).
  pose proof (report_get t o a clord oq cum leaves price last u TF) as G. cbn zeta in G.
  destruct G as (_ & G2 & G3 & _).
  pose proof (after_ids_facts t o) as (A1 & A2 & _ & _ & A5).
  split; [exact G3|]. split; [exact A1|]. split; [exact A2|].
  destruct (o_oid o) as [s|].
  - destruct A5 as (E & B & C). rewrite G2, E. auto.
  - destruct A5 as (_ & E & A6). rewrite G2, E.
    destruct (lookup (root_of o) (t_oids t)) as [v|]; destruct A6 as (-> & B & C); auto.
Qed.

Lemma exec_fail_ids u t o a t' :
  fix_exec_report_msg u t o a = AssertionFailed t' ->
  t_eid t <= t_eid t' <= t_eid t + 1 /\ t_oid t <= t_oid t' <= t_oid t + 1 /\ t_reg t' = t_reg t /\
  (forall k v, lookup k (t_oids t) = Some v -> lookup k (t_oids t') = Some v).
Proof.
  intros H. apply exec_fail_state in H as [->| ->]; [repeat split; try lia; auto|].
  pose proof (after_ids_facts t o) as (A1 & A2 & A3 & A4 & _). repeat split; try lia; auto.
Qed.

Definition exec_id_of (m : msg) : option str := get_s T_ExecID m.
Definition order_id_of (m : msg) : option str := get_s T_OrderID m.

Lemma step_eid u t p t' r :
  step u t p = (t', r) ->
  t_eid t <= t_eid t' /\
  (forall m, r = Some m -> exec_id_of m = Some (z_to_dec (t_eid t + 1)) /\ t_eid t' = t_eid t + 1).
Proof.
  destruct p as [key|o a|b]; cbn [step]; [| |intros H; inversion H; subst; unfold bookkeeping; split; [lia|discriminate]].
  - intros H; inversion H; subst. cbn [register t_eid]. split; [lia|discriminate].
  - destruct (fix_exec_report_msg u t o a) as [m t1|t1] eqn:E; intros H; inversion H; subst.
    + apply exec_ids in E as (G & E1 & _). split; [lia|]. intros m' Hm; inversion Hm; subst. now split.
    + apply exec_fail_ids in E. split; [lia|discriminate].
Qed.

(* over any history of helper calls on one tester: the ExecIDs issued are str(n) for a strictly
   increasing sequence of numbers, all above the counter at the start *)
Lemma run_exec_ids u ops : forall t t' ms,
  run_ops u t ops = (t', ms) ->
  t_eid t <= t_eid t' /\
  exists ids, map exec_id_of ms = map (fun z => Some (z_to_dec z)) ids /\
              StronglySorted Z.lt ids /\ Forall (fun z => t_eid t < z <= t_eid t') ids.
Proof.
  induction ops as [|p ops IH]; intros t t' ms H; cbn [run_ops] in H.
  - inversion H; subst. split; [lia|]. exists []. repeat split; constructor.
  - destruct (step u t p) as [t1 r] eqn:S. destruct (run_ops u t1 ops) as [t2 ms'] eqn:R.
    inversion H; subst. apply step_eid in S as (M1 & S). destruct (IH _ _ _ R) as (M2 & ids & E & SS & F).
    split; [lia|]. destruct r as [m|].
    + destruct (S m eq_refl) as (EM & E1). exists ((t_eid t + 1) :: ids). cbn [map]. rewrite EM, E. repeat split.
      * constructor; [assumption|]. eapply Forall_impl; [|exact F]. cbn. intros z Hz. lia.
      * constructor; [lia|]. eapply Forall_impl; [|exact F]. cbn. intros z Hz. lia.
    + exists ids. repeat split; try assumption. eapply Forall_impl; [|exact F]. cbn. intros z Hz. lia.
Qed.

Lemma sorted_nodup ids : StronglySorted Z.lt ids -> NoDup ids.
Proof.
  induction 1 as [|z ids SS IH F]; constructor; [|assumption].
  intros I. rewrite Forall_forall in F. specialize (F _ I). lia.
Qed.

Lemma run_exec_ids_distinct u ops t t' ms :
  run_ops u t ops = (t', ms) -> NoDup (map exec_id_of ms) /\ Forall (fun e => e <> None) (map exec_id_of ms).
Proof.
  intros H. apply run_exec_ids in H as (_ & ids & -> & SS & _). split.
  - apply Injective_map_NoDup; [|now apply sorted_nodup].
    intros x y E. inversion E as [E1]. now apply z_to_dec_inj.
  - apply Forall_forall. intros e I. apply in_map_iff in I as (z & <- & _). discriminate.
Qed.

(* --- tags --- *)

Lemma exec_tags u t o a m t' :
  fix_exec_report_msg u t o a = Ok m t' ->
  tags_of m = expected_tags a /\ NoDup (tags_of m).
Proof.
  intros H. apply exec_ok_inv in H as (clord & oq & cum & leaves & price & last & _ & _ & _ & _ & TF & _ & _ & _ & _ & ->).
  rewrite (report_tags _ _ _ _ _ _ _ _ _ _ TF). split; [reflexivity|apply expected_tags_nodup].
Qed.

Definition mandatory_tags : list N :=
  [T_ClOrdID; T_OrderID; T_ExecID; T_ExecType; T_OrdStatus; T_Side; T_CumQty; T_LeavesQty;
   T_Symbol; T_Price; T_OrderQty; T_AvgPx; T_Account].

Lemma mandatory_tags_are : mandatory_tags = [11; 37; 17; 150; 39; 54; 14; 151; 55; 44; 38; 6; 1]%N.
Proof. reflexivity. Qed.

Lemma expected_mandatory a : Forall (fun tag => In tag (expected_tags a)) mandatory_tags.
Proof.
  unfold expected_tags, mandatory_tags. destruct (truthy (a_orig a)), (a_exec a =? X_TRADE)%N; cbn;
  repeat (constructor; [intuition|]); constructor.
Qed.

Lemma expected_lastqty a : In T_LastQty (expected_tags a) <-> a_exec a = X_TRADE.
Proof.
  unfold expected_tags. destruct (a_exec a =? X_TRADE)%N eqn:E.
  - apply N.eqb_eq in E. split; [intros _; assumption|]. intros _. destruct (truthy (a_orig a)); cbn; intuition.
  - apply N.eqb_neq in E. split; [|intros; contradiction].
    destruct (truthy (a_orig a)); cbn; intuition discriminate.
Qed.

Lemma expected_orig a : In T_OrigClOrdID (expected_tags a) <-> truthy (a_orig a) = true.
Proof.
  unfold expected_tags. destruct (truthy (a_orig a)) eqn:E.
  - split; [reflexivity|]. intros _. cbn. intuition.
  - split; [|discriminate]. destruct (a_exec a =? X_TRADE)%N; cbn; intuition discriminate.
Qed.

Lemma exec_mandatory u t o a m t' :
  fix_exec_report_msg u t o a = Ok m t' ->
  NoDup (tags_of m) /\
  Forall (fun tag => In tag (tags_of m)) mandatory_tags /\
  (In T_LastQty (tags_of m) <-> a_exec a = X_TRADE) /\
  (In T_OrigClOrdID (tags_of m) <-> truthy (a_orig a) = true).
Proof.
  intros H. apply exec_tags in H as (-> & ND).
  repeat split; try assumption; try apply expected_mandatory; try apply expected_lastqty; apply expected_orig.
Qed.

(* the values copied from the arguments and from the order *)
Lemma exec_values u t o a m t' :
  fix_exec_report_msg u t o a = Ok m t' ->
  option_map (@Some str) (get_s T_ClOrdID m) = Some (a_clord a) /\
  get_s T_ExecType m = Some [a_exec a] /\ get_s T_OrdStatus m = Some [a_status a] /\
  get_s T_Side m = Some (o_side o) /\ get_s T_Symbol m = Some (o_ticker o) /\
  get_s T_Account m = Some (o_account o) /\ get_q T_AvgPx m = Some (a_avg a) /\
  get_q T_Price m = Some (match a_price a with Some p => p | None => o_price o end) /\
  get_q T_OrderQty m = Some (match a_oqty a with Some q => q | None => o_qty o end) /\
  (forall p, a_price a = Some p -> a_exec a = X_REPLACED) /\
  (forall q, a_oqty a = Some q -> a_exec a = X_REPLACED /\ 0 < q).
Proof.
  intros H. apply exec_ok_inv in H as (clord & oq & cum & leaves & price & last & _ & C & _ & Q & TF & P & _ & _ & _ & ->).
  pose proof (report_get t o a clord oq cum leaves price last u TF) as G. cbn zeta in G.
  destruct G as (G1 & _ & _ & G4 & G5 & G6 & _ & _ & G9 & G10 & G11 & G12 & G13).
  apply resolve_qtys_spec in Q as (_ & OQ & _ & _).
  unfold resolve_price in P. rewrite G1, C, G4, G5, G6, G9, G10, G11, G12, G13. cbn [option_map].
  do 7 (split; [reflexivity|]).
  split. { destruct (a_price a) as [p|]; [destruct (a_exec a =? X_REPLACED)%N; [|discriminate]|]; now inversion P. }
  split. { destruct (a_oqty a) as [q|]; [destruct OQ as (-> & _)|subst]; reflexivity. }
  split.
  - intros p E. rewrite E in P. destruct (a_exec a =? X_REPLACED)%N eqn:X; [|discriminate]. now apply N.eqb_eq in X.
  - intros q E. rewrite E in OQ. destruct OQ as (-> & ? & ?). split; assumption.
Qed.

(* the trade check *)
Lemma exec_trade u t o a m t' :
  fix_exec_report_msg u t o a = Ok m t' -> a_exec a = X_TRADE ->
  exists l cum, a_last a = Some l /\ get_q T_LastQty m = Some l /\ get_q T_CumQty m = Some cum /\ 0 < l /\
                2000 * Z.abs (l - (cum - o_cum o)) <= u.
Proof.
  intros H X. apply exec_ok_inv in H as (clord & oq & cum & leaves & price & last & _ & _ & _ & _ & TF & _ & _ & _ & _ & ->).
  destruct (trade_fields_shape _ _ _ _ _ TF) as [(_ & _ & NE)|(l & -> & AL & _ & L & R)]; [contradiction|].
  exists l, cum. repeat split; try assumption.
  - destruct (opt_field_shape T_OrigClOrdID (a_orig a)) as [[OF _]|(? & OF & _ & _)]; unfold report; rewrite OF; reflexivity.
  - destruct (opt_field_shape T_OrigClOrdID (a_orig a)) as [[OF _]|(? & OF & _ & _)]; unfold report; rewrite OF; reflexivity.
Qed.

(* --- consistent orders stay consistent; reports from consistent orders are consistent --- *)

Definition wf_order (o : order) : Prop := 0 <= o_cum o /\ 0 <= o_leaves o /\ o_cum o + o_leaves o <= o_qty o.

Definition consistent (m : msg) : Prop :=
  exists cum leaves oq,
    get_q T_CumQty m = Some cum /\ get_q T_LeavesQty m = Some leaves /\ get_q T_OrderQty m = Some oq /\
    0 <= cum /\ 0 <= leaves /\ cum + leaves <= oq.

Lemma exec_consistent u t o a m t' :
  fix_exec_report_msg u t o a = Ok m t' -> wf_order o -> consistent m.
Proof.
  intros H (C & L & _). destruct (exec_sum _ _ _ _ _ _ H) as (cum & leaves & oq & G1 & G2 & G3 & S).
  destruct (exec_nonneg _ _ _ _ _ _ H C L) as (cum' & leaves' & G1' & G2' & ? & ?).
  rewrite G1 in G1'. rewrite G2 in G2'. inversion G1'; inversion G2'; subst.
  exists cum', leaves', oq. intuition.
Qed.

Lemma process_wf u t o a m t' :
  fix_exec_report_msg u t o a = Ok m t' -> wf_order o -> wf_order (fst (process_execution_report o m)).
Proof.
  intros H W. pose proof H as H0.
  apply exec_ok_inv in H as (clord & oq & cum & leaves & price & last & _ & _ & _ & Q & TF & _ & _ & _ & _ & ->).
  pose proof (report_get t o a clord oq cum leaves price last u TF) as G. cbn zeta in G.
  destruct G as (G1 & G2 & _ & G4 & G5 & _ & G7 & G8 & _ & G10 & G11 & G12 & _).
  destruct (exec_nonneg _ _ _ _ _ _ H0 (proj1 W) (proj1 (proj2 W))) as (c' & l' & G7' & G8' & ? & ?).
  rewrite G7 in G7'. rewrite G8 in G8'. inversion G7'; inversion G8'; subst c' l'.
  apply resolve_qtys_spec in Q as (S & OQ & _ & _).
  unfold process_execution_report. rewrite G1, G7, G5, G4, G8, G2, G12, G10, G11.
  destruct (negb (str_eqb clord (o_clord o)) && negb match o_orig o with Some og => str_eqb clord og | None => false end);
    [exact W|].
  cbn [code_of].
  assert (QQ : (if (a_exec a =? X_REPLACED)%N then oq else o_qty o) = oq).
  { destruct (a_exec a =? X_REPLACED)%N eqn:X; [reflexivity|]. destruct (a_oqty a); [|now subst].
    destruct OQ as (_ & _ & E). rewrite E in X. discriminate. }
  destruct (change_status (o_status o) K_EXECUTIONREPORT (a_exec a) (a_status a) false =? T)%N;
    [destruct (mem (a_status a) all_statuses)|]; cbn [fst]; unfold wf_order; cbn [o_cum o_leaves o_qty];
    rewrite QQ; lia.
Qed.

(* closed loop from a consistent order: every report is consistent *)
Lemma drive_consistent u calls : forall t o,
  wf_order o -> Forall consistent (drive u t o calls).
Proof.
  induction calls as [|a calls IH]; intros t o W; cbn [drive]; [constructor|].
  destruct (fix_exec_report_msg u t o a) as [m t1|t1] eqn:E.
  - constructor; [eapply exec_consistent; eassumption|]. apply IH. eapply process_wf; eassumption.
  - now apply IH.
Qed.

(* --- OrderID stability in the closed loop --- *)

Lemma process_oid u t o a m t' :
  fix_exec_report_msg u t o a = Ok m t' -> a_clord a = Some (o_clord o) ->
  let o' := fst (process_execution_report o m) in
  o_oid o' = order_id_of m /\ o_clord o' = o_clord o /\
  snd (process_execution_report o m) <> RaisedFIXError /\ snd (process_execution_report o m) <> RaisedTagNotFound.
Proof.
  intros H C.
  apply exec_ok_inv in H as (clord & oq & cum & leaves & price & last & _ & C' & _ & _ & TF & _ & _ & _ & _ & ->).
  rewrite C in C'. inversion C'; subst clord.
  pose proof (report_get t o a (o_clord o) oq cum leaves price last u TF) as G. cbn zeta in G.
  destruct G as (G1 & G2 & _ & G4 & G5 & _ & G7 & G8 & _ & G10 & G11 & G12 & _).
  unfold process_execution_report, order_id_of. rewrite G1, G7, G5, G4, G8, G2, G12, G10, G11.
  rewrite str_eqb_refl. cbn [negb andb code_of].
  destruct (change_status (o_status o) K_EXECUTIONREPORT (a_exec a) (a_status a) false =? T)%N;
    [destruct (mem (a_status a) all_statuses)|]; cbn [fst snd o_oid o_clord]; repeat split; discriminate.
Qed.

Lemma drive_oid_inv u calls : forall t o s,
  o_oid o = Some s -> Forall (fun a => a_clord a = Some (o_clord o)) calls ->
  Forall (fun m => order_id_of m = Some s) (drive u t o calls).
Proof.
  induction calls as [|a calls IH]; intros t o s OID F; cbn [drive]; [constructor|].
  inversion F as [|? ? FA F']; subst.
  destruct (fix_exec_report_msg u t o a) as [m t1|t1] eqn:E.
  - pose proof (exec_ids _ _ _ _ _ _ E) as (_ & _ & _ & I). rewrite OID in I. destruct I as (I & _).
    constructor; [exact I|].
    destruct (process_oid _ _ _ _ _ _ E FA) as (O1 & O2 & _). apply IH.
    + rewrite O1. exact I.
    + rewrite O2. exact F'.
  - now apply IH.
Qed.

(* every report of a closed-loop run carries the OrderID of the first one *)
Lemma drive_oid_stable u calls t o :
  Forall (fun a => a_clord a = Some (o_clord o)) calls ->
  match drive u t o calls with
  | [] => True
  | m0 :: ms => order_id_of m0 <> None /\ Forall (fun m => order_id_of m = order_id_of m0) ms
  end.
Proof.
  revert t o. induction calls as [|a calls IH]; intros t o F; cbn [drive]; [exact I|].
  inversion F as [|? ? FA F']; subst.
  destruct (fix_exec_report_msg u t o a) as [m t1|t1] eqn:E.
  - pose proof (exec_ids _ _ _ _ _ _ E) as (_ & _ & _ & I).
    destruct (process_oid _ _ _ _ _ _ E FA) as (O1 & O2 & _).
    assert (S : exists s, order_id_of m = Some s).
    { unfold order_id_of. destruct (o_oid o); [|destruct (lookup (root_of o) (t_oids t))];
        destruct I as (I & _); rewrite I; eauto. }
    destruct S as (s & S). split; [congruence|]. rewrite S.
    apply drive_oid_inv; [congruence|]. rewrite O2. exact F'.
  - now apply IH.
Qed.

(* --- the order object processes the report --- *)

Lemma process_no_error u t o a m t' :
  fix_exec_report_msg u t o a = Ok m t' ->
  (a_clord a = Some (o_clord o) \/ (a_clord a = o_orig o)) ->
  In (a_status a) all_statuses ->
  snd (process_execution_report o m) = RetTrue \/ snd (process_execution_report o m) = RetFalse.
Proof.
  intros H C ST.
  apply exec_ok_inv in H as (clord & oq & cum & leaves & price & last & _ & C' & _ & _ & TF & _ & _ & _ & _ & ->).
  pose proof (report_get t o a clord oq cum leaves price last u TF) as G. cbn zeta in G.
  destruct G as (G1 & G2 & _ & G4 & G5 & _ & G7 & G8 & _ & G10 & G11 & G12 & _).
  unfold process_execution_report. rewrite G1, G7, G5, G4, G8, G2, G12, G10, G11.
  pose proof str_eqb_refl as R.
  assert (M : negb (str_eqb clord (o_clord o)) &&
              negb match o_orig o with Some og => str_eqb clord og | None => false end = false).
  { destruct C as [C|C]; rewrite C in C'.
    - inversion C'; subst. now rewrite R.
    - rewrite C'. rewrite R. now rewrite andb_false_r. }
  rewrite M. cbn [code_of].
  assert (MS : mem (a_status a) all_statuses = true).
  { unfold mem. apply existsb_exists. exists (a_status a). split; [assumption|apply N.eqb_refl]. }
  rewrite MS.
  destruct (change_status (o_status o) K_EXECUTIONREPORT (a_exec a) (a_status a) false =? T)%N; cbn [snd]; auto.
Qed.

(* --- fix_cxlrep_reject_msg --- *)

Lemma reject_spec mt clord orig st m :
  fix_cxlrep_reject_msg mt clord orig st = ROk m ->
  exists c og r,
    clord = Some c /\ orig = Some og /\ st <> CREATED /\
    m = [(T_OrderID, VS [48%N]); (T_ClOrdID, VS c); (T_OrigClOrdID, VS og); (T_OrdStatus, VS [st]);
         (T_CxlRejResponseTo, VS [r])] /\
    ((mt = [K_ORDERCANCELREQUEST] /\ r = 49%N) \/ (mt = [K_ORDERCANCELREPLACEREQUEST] /\ r = 50%N)).
Proof.
  unfold fix_cxlrep_reject_msg. destruct clord as [c|]; [|discriminate]. destruct orig as [og|]; [|discriminate].
  destruct (st =? CREATED)%N eqn:EC; [discriminate|]. apply N.eqb_neq in EC.
  destruct (str_eqb mt [K_ORDERCANCELREQUEST]) eqn:E1.
  - intros H; inversion H; subst. apply str_eqb_eq in E1. exists c, og, 49%N.
    split; [reflexivity|]. split; [reflexivity|]. split; [exact EC|]. split; [reflexivity|]. left. now split.
  - destruct (str_eqb mt [K_ORDERCANCELREPLACEREQUEST]) eqn:E2; [|discriminate].
    intros H; inversion H; subst. apply str_eqb_eq in E2. exists c, og, 50%N.
    split; [reflexivity|]. split; [reflexivity|]. split; [exact EC|]. split; [reflexivity|]. right. now split.
Qed.

Lemma reject_refuses mt clord orig st :
  fix_cxlrep_reject_msg mt clord orig st = RAssertion <->
  (exists c og, clord = Some c /\ orig = Some og) /\
  (st = CREATED \/ (mt <> [K_ORDERCANCELREQUEST] /\ mt <> [K_ORDERCANCELREPLACEREQUEST])).
Proof.
  unfold fix_cxlrep_reject_msg. destruct clord as [c|]; [|split; [discriminate|intros ((? & ? & ? & ?) & _); discriminate]].
  destruct orig as [og|]; [|split; [discriminate|intros ((? & ? & ? & ?) & _); discriminate]].
  destruct (st =? CREATED)%N eqn:EC.
  - apply N.eqb_eq in EC. split; [|reflexivity]. intros _. split; [now exists c, og|now left].
  - apply N.eqb_neq in EC.
    destruct (str_eqb mt [K_ORDERCANCELREQUEST]) eqn:E1.
    + split; [discriminate|]. intros (_ & [C|(N1 & _)]); [contradiction|]. apply str_eqb_eq in E1. contradiction.
    + destruct (str_eqb mt [K_ORDERCANCELREPLACEREQUEST]) eqn:E2.
      * split; [discriminate|]. intros (_ & [C|(_ & N2)]); [contradiction|]. apply str_eqb_eq in E2. contradiction.
      * split; [|reflexivity]. intros _. split; [now exists c, og|]. right.
        split; intros E; apply str_eqb_eq in E; congruence.
Qed.

(* --- one OrderID per order (fixes/R12b), over any history --- *)

Lemma register_oids t key : t_oids (register t key) = t_oids t /\ t_oid (register t key) = t_oid t.
Proof. split; reflexivity. Qed.

Lemma step_lookup u t p t' r k v :
  step u t p = (t', r) -> lookup k (t_oids t) = Some v -> lookup k (t_oids t') = Some v.
Proof.
  destruct p as [key|o a|b]; cbn [step]; [| |intros H; inversion H; subst; now unfold bookkeeping].
  - intros H; inversion H; subst. now cbn [register t_oids].
  - destruct (fix_exec_report_msg u t o a) as [m t1|t1] eqn:E; intros H L; inversion H; subst.
    + apply exec_ok_inv in E as (? & ? & ? & ? & ? & ? & _ & _ & _ & _ & _ & _ & _ & _ & -> & _).
      now apply (proj1 (proj2 (proj2 (proj2 (after_ids_facts t o))))).
    + apply exec_fail_ids in E as (_ & _ & _ & M). now apply M.
Qed.

Lemma run_lookup u ops : forall t t' ms k v,
  run_ops u t ops = (t', ms) -> lookup k (t_oids t) = Some v -> lookup k (t_oids t') = Some v.
Proof.
  induction ops as [|p ops IH]; intros t t' ms k v H L; cbn [run_ops] in H.
  - inversion H; subst. exact L.
  - destruct (step u t p) as [t1 r] eqn:S. destruct (run_ops u t1 ops) as [t2 ms'] eqn:R. inversion H; subst.
    eapply IH; [exact R|]. eapply step_lookup; eassumption.
Qed.

(* what an accepted call for an order without order_id leaves in the map, and what it reads from it *)
Lemma exec_oid_map u t o a m t' :
  fix_exec_report_msg u t o a = Ok m t' -> o_oid o = None ->
  exists v, lookup (root_of o) (t_oids t') = Some v /\ order_id_of m = Some (z_to_dec v) /\
            (forall w, lookup (root_of o) (t_oids t) = Some w -> v = w).
Proof.
  intros H OID. pose proof (exec_ids _ _ _ _ _ _ H) as (_ & _ & _ & I). rewrite OID in I.
  apply exec_ok_inv in H as (? & ? & ? & ? & ? & ? & _ & _ & _ & _ & _ & _ & _ & _ & -> & _).
  pose proof (after_ids_facts t o) as (_ & _ & _ & _ & A). rewrite OID in A. destruct A as (L & _ & A).
  exists (oid_num t o). split; [exact L|]. unfold order_id_of.
  destruct (lookup (root_of o) (t_oids t)) as [w|]; destruct A as (-> & _ & _); destruct I as (I & _); rewrite I.
  - split; [reflexivity|]. intros w' E. now inversion E.
  - split; [reflexivity|]. discriminate.
Qed.

(* two fabrications for the same order (same root ClOrdID) with ANY history of helper calls in between carry the
   same OrderID, whether or not the order object has processed the first report *)
Lemma order_id_stable u t o1 a1 m1 t1 ops t2 ms o2 a2 m2 t3 :
  fix_exec_report_msg u t o1 a1 = Ok m1 t1 -> run_ops u t1 ops = (t2, ms) ->
  fix_exec_report_msg u t2 o2 a2 = Ok m2 t3 ->
  o_oid o1 = None -> root_of o2 = root_of o1 -> (o_oid o2 = None \/ o_oid o2 = order_id_of m1) ->
  order_id_of m2 = order_id_of m1.
Proof.
  intros H1 R H2 O1 RT O2.
  destruct (exec_oid_map _ _ _ _ _ _ H1 O1) as (v & L1 & I1 & _).
  pose proof (run_lookup _ _ _ _ _ _ _ R L1) as L2.
  destruct O2 as [O2|O2].
  - destruct (exec_oid_map _ _ _ _ _ _ H2 O2) as (w & _ & I2 & U). rewrite RT in U. rewrite (U _ L2) in I2. congruence.
  - pose proof (exec_ids _ _ _ _ _ _ H2) as (_ & _ & _ & I). rewrite O2, I1 in I. destruct I as (I & _).
    unfold order_id_of at 1. rewrite I. now rewrite I1.
Qed.

(* the map only holds ids that were drawn from the counter, each once *)
Definition wf_t (t : tstate) : Prop :=
  Forall (fun e => snd e <= t_oid t) (t_oids t) /\ NoDup (map snd (t_oids t)).

Lemma lookup_in k l v : lookup k l = Some v -> In (k, v) l.
Proof.
  induction l as [|[k' v'] l IH]; cbn [lookup]; [discriminate|].
  destruct (str_eqb k' k) eqn:E; [|right; auto]. intros H; inversion H; subst. apply str_eqb_eq in E. subst. now left.
Qed.

Lemma NoDup_app_one {A} (l : list A) x : NoDup l -> ~ In x l -> NoDup (l ++ [x]).
Proof.
  induction 1 as [|y l NI ND IH]; intros H; cbn [app]; [constructor; [intros []|constructor]|].
  constructor.
  - intros I. apply in_app_or in I as [I|[I|[]]]; [contradiction|]. subst. apply H. now left.
  - apply IH. intros I. apply H. now right.
Qed.

Lemma after_ids_wf t o : wf_t t -> wf_t (after_ids t o).
Proof.
  intros (B & ND). pose proof (after_ids_facts t o) as (_ & _ & A3 & _ & A5). unfold wf_t.
  destruct (o_oid o) as [s|]; [destruct A5 as (_ & -> & ->); now split|].
  destruct A5 as (_ & _ & A5). destruct (lookup (root_of o) (t_oids t)) as [v|].
  - destruct A5 as (_ & -> & ->). now split.
  - destruct A5 as (_ & E1 & E2). rewrite E1, E2. split.
    + apply Forall_app. split; [|constructor; [cbn; lia|constructor]].
      eapply Forall_impl; [|exact B]. cbn. intros e He. lia.
    + rewrite map_app. cbn [map snd]. apply NoDup_app_one; [exact ND|].
      intros I. apply in_map_iff in I as (e & E & I). rewrite Forall_forall in B. specialize (B _ I). lia.
Qed.

Lemma step_wf u t p t' r : step u t p = (t', r) -> wf_t t -> wf_t t'.
Proof.
  destruct p as [key|o a|b]; cbn [step]; [| |intros H; inversion H; subst; now unfold bookkeeping].
  - intros H; inversion H; subst. auto.
  - destruct (fix_exec_report_msg u t o a) as [m t1|t1] eqn:E; intros H W; inversion H; subst.
    + apply exec_ok_inv in E as (? & ? & ? & ? & ? & ? & _ & _ & _ & _ & _ & _ & _ & _ & -> & _). now apply after_ids_wf.
    + apply exec_fail_state in E as [->| ->]; [exact W|now apply after_ids_wf].
Qed.

Lemma run_wf u ops : forall t t' ms, run_ops u t ops = (t', ms) -> wf_t t -> wf_t t'.
Proof.
  induction ops as [|p ops IH]; intros t t' ms H W; cbn [run_ops] in H.
  - inversion H; subst. exact W.
  - destruct (step u t p) as [t1 r] eqn:S. destruct (run_ops u t1 ops) as [t2 ms'] eqn:R. inversion H; subst.
    eapply IH; [exact R|]. eapply step_wf; eassumption.
Qed.

Lemma wf_lookup_inj t k1 k2 v : wf_t t -> lookup k1 (t_oids t) = Some v -> lookup k2 (t_oids t) = Some v -> k1 = k2.
Proof.
  intros (_ & ND) L1 L2. apply lookup_in in L1, L2. revert ND L1 L2. generalize (t_oids t).
  induction l as [|[k w] l IH]; cbn [map snd In]; [contradiction|].
  intros ND [E1|I1] [E2|I2].
  - congruence.
  - inversion E1; subst. inversion ND as [|? ? NI _]. exfalso. apply NI. apply in_map_iff. now exists (k2, v).
  - inversion E2; subst. inversion ND as [|? ? NI _]. exfalso. apply NI. apply in_map_iff. now exists (k1, v).
  - inversion ND; subst. now apply IH.
Qed.

(* orders with different root ClOrdIDs never share a drawn OrderID *)
Lemma order_id_distinct u t o1 a1 m1 t1 ops t2 ms o2 a2 m2 t3 :
  wf_t t ->
  fix_exec_report_msg u t o1 a1 = Ok m1 t1 -> run_ops u t1 ops = (t2, ms) ->
  fix_exec_report_msg u t2 o2 a2 = Ok m2 t3 ->
  o_oid o1 = None -> o_oid o2 = None -> root_of o2 <> root_of o1 ->
  order_id_of m2 <> order_id_of m1.
Proof.
  intros W H1 R H2 O1 O2 RT E.
  destruct (exec_oid_map _ _ _ _ _ _ H1 O1) as (v & L1 & I1 & _).
  destruct (exec_oid_map _ _ _ _ _ _ H2 O2) as (w & L2 & I2 & _).
  rewrite I1, I2 in E. inversion E as [E']. apply z_to_dec_inj in E'. subst w.
  assert (W3 : wf_t t3).
  { apply exec_ok_inv in H2 as (? & ? & ? & ? & ? & ? & _ & _ & _ & _ & _ & _ & _ & _ & -> & _). apply after_ids_wf.
    eapply run_wf; [exact R|].
    apply exec_ok_inv in H1 as (? & ? & ? & ? & ? & ? & _ & _ & _ & _ & _ & _ & _ & _ & -> & _). now apply after_ids_wf. }
  pose proof (run_lookup _ _ _ _ _ _ _ R L1) as L1'.
  assert (L1'' : lookup (root_of o1) (t_oids t3) = Some v).
  { apply exec_ok_inv in H2 as (? & ? & ? & ? & ? & ? & _ & _ & _ & _ & _ & _ & _ & _ & -> & _).
    now apply (proj1 (proj2 (proj2 (proj2 (after_ids_facts t2 o2))))). }
  apply RT. symmetry. eapply wf_lookup_inj; eassumption.
Qed.

Lemma wf_t_init : wf_t t_init.
Proof. split; constructor. Qed.

Lemma order_id_map_wf : wf_t t_init /\ (forall u ops t t' ms, run_ops u t ops = (t', ms) -> wf_t t -> wf_t t').
Proof. exact (conj wf_t_init run_wf). Qed.

Lemma status_never_created u t o a m t' :
  fix_exec_report_msg u t o a = Ok m t' -> a_status a <> CREATED /\ get_s T_OrdStatus m = Some [a_status a].
Proof.
  intros H. split; [now apply (exec_status_not_created _ _ _ _ _ _ H)|].
  now apply (exec_values _ _ _ _ _ _ H).
Qed.

(* ================================================================ witnesses *)

Definition w_order : order :=
  mkOrder [111;114;100;45;45;49]%N None None (8 * 4096) 0 0 (10 * 4096) [49%N] [84;73;67;75]%N [48;48;48;48;48;48]%N PENDING_NEW.
Definition w_state : tstate := register t_init (o_clord w_order).
Definition w_args (clord : str) (ex st : N) (cum leaves : option Z) : eargs :=
  mkArgs (Some clord) ex st cum leaves None None None None 0.

(* two reports fabricated for the same order before it processed the first: since fixes/R12b the same OrderID,
   and a second order (other root ClOrdID) gets the next one *)
Lemma open_loop_witness :
  exists t1 m1 t2 m2,
    fix_exec_report_msg 4096 w_state w_order (w_args (o_clord w_order) PENDING_NEW PENDING_NEW None None) = Ok m1 t1 /\
    fix_exec_report_msg 4096 t1 w_order (w_args (o_clord w_order) NEW NEW (Some 0) (Some (8 * 4096))) = Ok m2 t2 /\
    order_id_of m1 = Some [49%N] /\ order_id_of m2 = Some [49%N] /\
    t_oids t2 = [(root_of w_order, 1)] /\ root_of w_order = [111;114;100]%N.
Proof. do 4 eexists. vm_compute. repeat split; reflexivity. Qed.

(* a ClOrdID that is not the order's: the helper accepts, the order object raises FIXError *)
Lemma foreign_clordid_witness :
  exists m t', fix_exec_report_msg 4096 w_state w_order (w_args [120%N] NEW NEW (Some 0) (Some (8 * 4096))) = Ok m t' /\
               snd (process_execution_report w_order m) = RaisedFIXError.
Proof. do 2 eexists. vm_compute. split; reflexivity. Qed.

(* the library-internal status CREATED ("Z", not a FIX 4.4 OrdStatus value) is refused before any id is drawn
   (fixes/R12a) *)
Lemma created_status_witness :
  fix_exec_report_msg 4096 w_state w_order (w_args (o_clord w_order) NEW CREATED None None) = AssertionFailed w_state /\
  fix_cxlrep_reject_msg [K_ORDERCANCELREQUEST] (Some [97%N]) (Some [98%N]) CREATED = RAssertion /\
  In CREATED all_statuses.
Proof. vm_compute. repeat split; try reflexivity. now left. Qed.

(* an inconsistent order object (negative LeavesQty) and omitted arguments: the defaults are copied unchecked *)
Lemma defaults_need_consistent_order :
  exists o m t', o_leaves o < 0 /\
    fix_exec_report_msg 4096 w_state o (w_args (o_clord o) NEW NEW None None) = Ok m t' /\
    get_q T_LeavesQty m = Some (-4096).
Proof.
  exists (mkOrder (o_clord w_order) None None (8 * 4096) 0 (-4096) (10 * 4096) [49%N] [84;73;67;75]%N [48]%N NEW).
  do 2 eexists. vm_compute. repeat split; reflexivity.
Qed.

(* non-vacuity: a partial fill on a live order is accepted, consistent and processed *)
Definition w_live : order :=
  mkOrder [111;114;100;45;45;49]%N None (Some [49%N]) (8 * 4096) 0 (8 * 4096) (10 * 4096) [49%N] [84;73;67;75]%N
          [48;48;48;48;48;48]%N NEW.
Definition w_fill : eargs :=
  mkArgs (Some (o_clord w_live)) X_TRADE PARTIALLY_FILLED (Some (2 * 4096)) (Some (6 * 4096)) (Some (2 * 4096 + 2))
         None None None (10 * 4096).

Lemma fill_witness :
  exists m t', fix_exec_report_msg 4096 w_state w_live w_fill = Ok m t' /\
    wf_order w_live /\ get_q T_LastQty m = Some (2 * 4096 + 2) /\ order_id_of m = Some [49%N] /\
    snd (process_execution_report w_live m) = RetTrue /\
    o_status (fst (process_execution_report w_live m)) = PARTIALLY_FILLED /\
    o_cum (fst (process_execution_report w_live m)) = 2 * 4096.
Proof. do 2 eexists. vm_compute. repeat split; try reflexivity; discriminate. Qed.

(* the rounding tolerance: 3/4096 > 0.0005 is refused *)
Lemma fill_tolerance_witness :
  fix_exec_report_msg 4096 w_state w_live
    (mkArgs (Some (o_clord w_live)) X_TRADE PARTIALLY_FILLED (Some (2 * 4096)) (Some (6 * 4096)) (Some (2 * 4096 + 3))
            None None None 0) = AssertionFailed (mkT 0 10001 (t_reg w_state) []).
Proof. vm_compute. reflexivity. Qed.

(* a closed loop of three calls keeps one OrderID and three increasing ExecIDs *)
Lemma drive_witness :
  map (fun m => (order_id_of m, exec_id_of m))
      (drive 4096 w_state w_order
         [w_args (o_clord w_order) PENDING_NEW PENDING_NEW None None;
          w_args (o_clord w_order) NEW NEW (Some 0) (Some (8 * 4096));
          w_args (o_clord w_order) CANCELED CANCELED None (Some 0)])
  = [(Some [49%N], Some [49;48;48;48;49]%N); (Some [49%N], Some [49;48;48;48;50]%N); (Some [49%N], Some [49;48;48;48;51]%N)].
Proof. vm_compute. reflexivity. Qed.

(* the bookkeeping methods leave the fabrication state alone (the model's claim, tied to the code by the harness
   after every such call) *)
Lemma bookkeeping_id t b : bookkeeping t b = t.
Proof. reflexivity. Qed.

(* a two-phase history: two reports, reset_messages() and set_next_num(), two more reports: ExecIDs 10001..10004,
   one OrderID *)
Lemma reset_history_witness :
  let a1 := w_args (o_clord w_order) PENDING_NEW PENDING_NEW None None in
  let a2 := w_args (o_clord w_order) NEW NEW (Some 0) (Some (8 * 4096)) in
  map (fun m => (order_id_of m, exec_id_of m))
      (snd (run_ops 4096 w_state
              [OpExec w_order a1; OpExec w_order a2; OpBook BResetMessages; OpBook (BSetNextNum (Some 5) None);
               OpExec w_order a1; OpBook BQuery; OpExec w_order a2]))
  = [(Some [49%N], Some [49;48;48;48;49]%N); (Some [49%N], Some [49;48;48;48;50]%N);
     (Some [49%N], Some [49;48;48;48;51]%N); (Some [49%N], Some [49;48;48;48;52]%N)].
Proof. vm_compute. reflexivity. Qed.
