(* Proofs about the dictionary-parse model Fix/SchemaParse.v: the retry loop of FIXSchema._parse
   computes the declarative unfolding [expand] of component references, which looks components up by
   name only; hence the parsed schema does not depend on the declaration order of <components>. *)
From Coq Require Import ZArith NArith List Bool Lia Permutation.
From AF Require Import Base.Sx Py.Str Fix.SchemaModel Fix.SchemaParse Lemmas.SchemaL.
From AFGen Require GenSchema.
Import ListNotations.
Local Open Scope nat_scope.

(* ------------------------------------------------------------------ induction on declarations *)

Section RInd.
  Variable P : rchild -> Prop.
  Hypothesis Hf : forall n r, P (RField n r).
  Hypothesis Hc : forall c, P (RComp c).
  Hypothesis Hg : forall n r ch, Forall P ch -> P (RGroup n r ch).

  Fixpoint rchild_ind' (c : rchild) : P c :=
    match c with
    | RField n r => Hf n r
    | RComp c' => Hc c'
    | RGroup n r ch =>
        Hg n r ch ((fix go (l : list rchild) : Forall P l :=
                      match l with
                      | [] => Forall_nil _
                      | x :: r' => Forall_cons x (rchild_ind' x) (go r')
                      end) ch)
    end.
End RInd.

Lemma Forall_all : forall (P : rchild -> Prop), (forall c, P c) -> forall ch, Forall P ch.
Proof. intros P H ch. apply Forall_forall. intros. apply H. Qed.

(* ------------------------------------------------------------------ add / merge *)

Definition names (ms : list member) : list N := map member_name ms.

Lemma has_name_In : forall n ms, has_name n ms = true <-> In n (names ms).
Proof.
  intros n ms. unfold has_name, names. rewrite existsb_exists, in_map_iff. split.
  - intros [m [Hin E]]. apply N.eqb_eq in E. exists m. auto.
  - intros [m [E Hin]]. exists m. split; [exact Hin | apply N.eqb_eq; exact E].
Qed.

Lemma add_inr : forall m acc a,
  add m acc = inr a -> ~ In (member_name m) (names acc) /\ a = acc ++ [m].
Proof.
  intros m acc a H. unfold add in H. destruct (has_name (member_name m) acc) eqn:E; [discriminate|].
  inversion H; subst. split; [|reflexivity]. intro Hin. apply has_name_In in Hin. congruence.
Qed.

Lemma add_ok : forall m acc, ~ In (member_name m) (names acc) -> add m acc = inr (acc ++ [m]).
Proof.
  intros m acc H. unfold add. destruct (has_name (member_name m) acc) eqn:E; [|reflexivity].
  apply has_name_In in E. contradiction.
Qed.

Lemma names_app : forall a b, names (a ++ b) = names a ++ names b.
Proof. intros. unfold names. apply map_app. Qed.

Lemma add_sub : forall m acc1 acc2 a2,
  incl (names acc1) (names acc2) -> add m acc2 = inr a2 ->
  exists a1, add m acc1 = inr a1 /\ incl (names a1) (names a2).
Proof.
  intros m acc1 acc2 a2 Hi H. apply add_inr in H. destruct H as [Hn ->].
  exists (acc1 ++ [m]). split.
  - apply add_ok. intro Hin. apply Hn. apply Hi. exact Hin.
  - rewrite !names_app. apply incl_app; [apply incl_appl; exact Hi | apply incl_appr; apply incl_refl].
Qed.

Lemma add_grows : forall m acc a, add m acc = inr a -> incl (names acc) (names a).
Proof. intros m acc a H. apply add_inr in H. destruct H as [_ ->]. rewrite names_app. apply incl_appl, incl_refl. Qed.

Lemma merge_grows : forall ms acc a, merge ms acc = inr a -> incl (names acc) (names a).
Proof.
  induction ms as [|m ms IH]; intros acc a H; simpl in H.
  - inversion H. apply incl_refl.
  - destruct (add m acc) as [e|acc'] eqn:E; [discriminate|].
    eapply incl_tran; [eapply add_grows; exact E | apply IH; exact H].
Qed.

Lemma merge_sub : forall ms acc1 acc2 a2,
  incl (names acc1) (names acc2) -> merge ms acc2 = inr a2 ->
  exists a1, merge ms acc1 = inr a1 /\ incl (names a1) (names a2).
Proof.
  induction ms as [|m ms IH]; intros acc1 acc2 a2 Hi H; simpl in *.
  - inversion H; subst. exists acc1. auto.
  - destruct (add m acc2) as [e|acc2'] eqn:E; [discriminate|].
    destruct (add_sub m acc1 acc2 acc2' Hi E) as [acc1' [E1 Hi']]. rewrite E1.
    apply (IH acc1' acc2' a2 Hi' H).
Qed.

(* ------------------------------------------------------------------ parsing a child list *)

Definition sub (L L' : N -> option (list member)) : Prop := forall n ms, L n = Some ms -> L' n = Some ms.

Lemma sub_refl : forall L, sub L L.
Proof. intros L n ms H. exact H. Qed.

Lemma sub_trans : forall L1 L2 L3, sub L1 L2 -> sub L2 L3 -> sub L1 L3.
Proof. intros L1 L2 L3 H1 H2 n ms H. apply H2, H1, H. Qed.

Section Children.
  Variable flds : list field.
  Variable grp : list N.

  Notation pchild := (parse_child flds grp).
  Notation pchildren := (parse_children flds grp).

  Lemma pchildren_cons : forall L c r acc d,
    pchildren L (c :: r) acc d =
    match pchild L c acc d with inl e => inl e | inr (acc', d') => pchildren L r acc' d' end.
  Proof. reflexivity. Qed.

  Lemma pchild_group : forall L n r ch acc d,
    pchild L (RGroup n r ch) acc d =
    match field_by_name flds n with
    | None => inl PKeyError
    | Some f =>
        if negb (existsb (N.eqb (f_name f)) grp) then inl PValueError
        else match pchildren L ch [] false with
             | inl e => inl e
             | inr (_, true) => inr (acc, true)
             | inr (gms, false) =>
                 match add (MGroup f r gms) acc with inl e => inl e | inr a => inr (a, d) end
             end
    end.
  Proof. reflexivity. Qed.

  (* the has_circular_refs flag is never reset *)
  Lemma pchild_flag : forall L c acc a d', pchild L c acc true = inr (a, d') -> d' = true.
  Proof.
    intros L c acc a d' H. destruct c as [n r|cn|n r ch].
    - simpl in H. destruct (field_by_name flds n); [|discriminate].
      destruct (add (MField f r) acc); inversion H; reflexivity.
    - simpl in H. destruct (L cn); [|inversion H; reflexivity].
      destruct (merge l acc); inversion H; reflexivity.
    - rewrite pchild_group in H. destruct (field_by_name flds n); [|discriminate].
      destruct (negb (existsb (N.eqb (f_name f)) grp)); [discriminate|].
      destruct (pchildren L ch [] false) as [e|[gms [|]]]; [discriminate | inversion H; reflexivity |].
      destruct (add (MGroup f r gms) acc); inversion H; reflexivity.
  Qed.

  Lemma pchildren_flag : forall L ch acc a d', pchildren L ch acc true = inr (a, d') -> d' = true.
  Proof.
    intros L. induction ch as [|c ch IH]; intros acc a d' H.
    - inversion H. reflexivity.
    - rewrite pchildren_cons in H. destruct (pchild L c acc true) as [e|[acc1 d1]] eqn:E; [discriminate|].
      apply pchild_flag in E. subst d1. eapply IH. exact H.
  Qed.

  Lemma pchildren_false : forall L ch acc d a, pchildren L ch acc d = inr (a, false) -> d = false.
  Proof. intros L ch acc [|] a H; [apply pchildren_flag in H; discriminate | reflexivity]. Qed.

  (* --- a finished (non-deferred) parse is unchanged when more components are known --- *)
  Section Mono.
    Variables L L' : N -> option (list member).
    Hypothesis HL : sub L L'.

    Definition mono_prop (c : rchild) : Prop :=
      forall acc d a, pchild L c acc d = inr (a, false) -> pchild L' c acc d = inr (a, false).

    Lemma mono_loop : forall ch, Forall mono_prop ch ->
      forall acc d a, pchildren L ch acc d = inr (a, false) -> pchildren L' ch acc d = inr (a, false).
    Proof.
      induction ch as [|c ch IH]; intros HF acc d a H.
      - exact H.
      - inversion HF as [|? ? Hc HF']; subst. rewrite pchildren_cons in *.
        destruct (pchild L c acc d) as [e|[acc1 d1]] eqn:E; [discriminate|].
        assert (d1 = false) by (eapply pchildren_false; exact H). subst d1.
        rewrite (Hc acc d acc1 E). apply IH; assumption.
    Qed.

    Lemma mono_child : forall c, mono_prop c.
    Proof.
      induction c as [n r|cn|n r ch IH] using rchild_ind'; intros acc d a H.
      - exact H.
      - simpl in *. destruct (L cn) as [ms|] eqn:E; [|discriminate].
        rewrite (HL cn ms E). exact H.
      - rewrite pchild_group in *. destruct (field_by_name flds n); [|discriminate].
        destruct (negb (existsb (N.eqb (f_name f)) grp)); [discriminate|].
        destruct (pchildren L ch [] false) as [e|[gms [|]]] eqn:E; [discriminate | discriminate |].
        rewrite (mono_loop ch IH [] false gms E). exact H.
    Qed.

    Lemma mono_children : forall ch acc d a,
      pchildren L ch acc d = inr (a, false) -> pchildren L' ch acc d = inr (a, false).
    Proof. intros ch. apply mono_loop. apply Forall_all. exact mono_child. Qed.

    (* --- an attempt with fewer components known raises nothing the full attempt does not raise --- *)
    Definition sub_prop (c : rchild) : Prop :=
      forall acc1 acc2 d1 d2 r2 e2,
        incl (names acc1) (names acc2) -> pchild L' c acc2 d2 = inr (r2, e2) ->
        exists r1 e1, pchild L c acc1 d1 = inr (r1, e1) /\ incl (names r1) (names r2).

    Lemma sub_loop : forall ch, Forall sub_prop ch ->
      forall acc1 acc2 d1 d2 r2 e2,
        incl (names acc1) (names acc2) -> pchildren L' ch acc2 d2 = inr (r2, e2) ->
        exists r1 e1, pchildren L ch acc1 d1 = inr (r1, e1) /\ incl (names r1) (names r2).
    Proof.
      induction ch as [|c ch IH]; intros HF acc1 acc2 d1 d2 r2 e2 Hi H.
      - inversion H; subst. exists acc1, d1. split; [reflexivity | exact Hi].
      - inversion HF as [|? ? Hc HF']; subst. rewrite pchildren_cons in H.
        destruct (pchild L' c acc2 d2) as [e|[b2 f2]] eqn:E; [discriminate|].
        destruct (Hc acc1 acc2 d1 d2 b2 f2 Hi E) as [b1 [f1 [E1 Hi1]]].
        rewrite pchildren_cons, E1. apply (IH HF' b1 b2 f1 f2 r2 e2 Hi1 H).
    Qed.

    Lemma sub_child : forall c, sub_prop c.
    Proof.
      induction c as [n r|cn|n r ch IH] using rchild_ind'; intros acc1 acc2 d1 d2 r2 e2 Hi H.
      - simpl in *. destruct (field_by_name flds n) as [f|]; [|discriminate].
        destruct (add (MField f r) acc2) as [e|a2] eqn:E; [discriminate|]. inversion H; subst.
        destruct (add_sub _ acc1 acc2 r2 Hi E) as [a1 [E1 Hi1]]. rewrite E1. eauto.
      - simpl in *. destruct (L cn) as [ms|] eqn:EL.
        + rewrite (HL cn ms EL) in H. destruct (merge ms acc2) as [e|a2] eqn:E; [discriminate|].
          inversion H; subst. destruct (merge_sub ms acc1 acc2 r2 Hi E) as [a1 [E1 Hi1]].
          rewrite E1. eauto.
        + exists acc1, true. split; [reflexivity|].
          destruct (L' cn) as [ms|].
          * destruct (merge ms acc2) as [e|a2] eqn:E; [discriminate|]. inversion H; subst.
            eapply incl_tran; [exact Hi | eapply merge_grows; exact E].
          * inversion H; subst. exact Hi.
      - rewrite pchild_group in *. destruct (field_by_name flds n) as [f|]; [|discriminate].
        destruct (negb (existsb (N.eqb (f_name f)) grp)); [discriminate|].
        destruct (pchildren L' ch [] false) as [e|[g2 dd2]] eqn:E2; [discriminate|].
        destruct (sub_loop ch IH [] [] false false g2 dd2 (incl_refl _) E2) as [g1 [dd1 [E1 _]]].
        rewrite E1. destruct dd1.
        + exists acc1, true. split; [reflexivity|]. destruct dd2.
          * inversion H; subst. exact Hi.
          * destruct (add (MGroup f r g2) acc2) as [e|a2] eqn:E; [discriminate|]. inversion H; subst.
            eapply incl_tran; [exact Hi | eapply add_grows; exact E].
        + assert (pchildren L' ch [] false = inr (g1, false)) as E1' by (apply mono_children; exact E1).
          rewrite E1' in E2. inversion E2; subst g2 dd2.
          destruct (add (MGroup f r g1) acc2) as [e|a2] eqn:E; [discriminate|]. inversion H; subst.
          destruct (add_sub _ acc1 acc2 r2 Hi E) as [a1 [Ea Hi1]]. rewrite Ea. eauto.
    Qed.

    Lemma sub_children : forall ch acc1 acc2 d1 d2 r2 e2,
      incl (names acc1) (names acc2) -> pchildren L' ch acc2 d2 = inr (r2, e2) ->
      exists r1 e1, pchildren L ch acc1 d1 = inr (r1, e1) /\ incl (names r1) (names r2).
    Proof. intros ch. apply sub_loop. apply Forall_all. exact sub_child. Qed.
  End Mono.

  (* --- only the lookup function matters --- *)
  Lemma ext_children : forall L L', (forall n, L n = L' n) ->
    forall ch acc d, pchildren L ch acc d = pchildren L' ch acc d.
  Proof.
    intros L L' HE.
    assert (Hc : forall c acc d, pchild L c acc d = pchild L' c acc d).
    { induction c as [n r|cn|n r ch IH] using rchild_ind'; intros acc d.
      - reflexivity.
      - simpl. rewrite HE. reflexivity.
      - rewrite !pchild_group.
        assert (pchildren L ch [] false = pchildren L' ch [] false) as ->; [|reflexivity].
        generalize (@nil member) false. induction IH as [|c ch Hc _ IHl]; intros acc' d'.
        + reflexivity.
        + rewrite !pchildren_cons, Hc. destruct (pchild L' c acc' d') as [e|[a1 d1]]; [reflexivity | apply IHl]. }
    induction ch as [|c ch IH]; intros acc d.
    - reflexivity.
    - rewrite !pchildren_cons, Hc. destruct (pchild L' c acc d) as [e|[a1 d1]]; [reflexivity | apply IH].
  Qed.

  Lemma ext_messages : forall L L', (forall n, L n = L' n) ->
    forall msgs seen acc, parse_messages flds grp L msgs seen acc = parse_messages flds grp L' msgs seen acc.
  Proof.
    intros L L' HE. induction msgs as [|[[nm mt] ch] r IH]; intros seen acc; simpl.
    - reflexivity.
    - destruct (existsb (N.eqb nm) seen); [reflexivity|].
      fold (parse_children flds grp). rewrite (ext_children L L' HE).
      destruct (pchildren L' ch [] false) as [e|[ms [|]]]; try reflexivity. apply IH.
  Qed.
End Children.

(* ------------------------------------------------------------------ component tables *)

Lemma lookup_In : forall cm n ms, lookup cm n = Some ms -> In (n, ms) cm.
Proof.
  intros cm n ms H. unfold lookup in H.
  destruct (find (fun p => N.eqb (fst p) n) cm) as [[n' ms']|] eqn:E; [|discriminate].
  simpl in H. inversion H; subst. apply find_some in E. destruct E as [Hin E]. simpl in E.
  apply N.eqb_eq in E. subst. exact Hin.
Qed.

Lemma lookup_key : forall cm n, In n (map fst cm) -> exists ms, lookup cm n = Some ms.
Proof.
  intros cm n H. unfold lookup. destruct (find (fun p => N.eqb (fst p) n) cm) as [[n' ms']|] eqn:E.
  - eexists. reflexivity.
  - exfalso. apply in_map_iff in H. destruct H as [[n0 ms0] [E0 Hin]]. simpl in E0. subst n0.
    apply (find_none _ _ E) in Hin. simpl in Hin. rewrite N.eqb_refl in Hin. discriminate.
Qed.

Lemma lookup_none : forall cm n, ~ In n (map fst cm) -> lookup cm n = None.
Proof.
  intros cm n H. destruct (lookup cm n) as [ms|] eqn:E; [|reflexivity].
  exfalso. apply H. apply lookup_In in E. apply in_map_iff. exists (n, ms). auto.
Qed.

Lemma has_key_In : forall cm n, has_key cm n = true <-> In n (map fst cm).
Proof.
  intros cm n. unfold has_key. rewrite existsb_exists, in_map_iff. split.
  - intros [p [Hin E]]. apply N.eqb_eq in E. exists p. auto.
  - intros [p [E Hin]]. exists p. split; [exact Hin | apply N.eqb_eq; exact E].
Qed.

Lemma nodup_fst_inj : forall (A : Type) (l : list (N * A)) n a b,
  NoDup (map fst l) -> In (n, a) l -> In (n, b) l -> a = b.
Proof.
  induction l as [|c l IH]; intros n a b Hnd Ha Hb; [contradiction|].
  simpl in Hnd. inversion Hnd as [|? ? Hn Hd]; subst.
  destruct Ha as [Ea|Ha], Hb as [Eb|Hb].
  - congruence.
  - exfalso. subst c. apply Hn. apply in_map_iff. exists (n, b). auto.
  - exfalso. subst c. apply Hn. apply in_map_iff. exists (n, a). auto.
  - eapply IH; eassumption.
Qed.

(* ------------------------------------------------------------------ the declarative meaning *)

Section Meaning.
  Variable flds : list field.
  Variable grp : list N.
  Variable cs : list rcomp.

  Definition find_decl (n : N) : option (list rchild) :=
    option_map snd (find (fun c => N.eqb (fst c) n) cs).

  (* the members of component n, unfolding references at most k levels deep *)
  Fixpoint expand (k : nat) (n : N) : option (list member) :=
    match k with
    | O => None
    | S k' =>
        match find_decl n with
        | None => None
        | Some ch =>
            match parse_children flds grp (expand k') ch [] false with
            | inr (ms, false) => Some ms
            | _ => None
            end
        end
    end.

  Lemma expand_S : forall k n ms,
    expand (S k) n = Some ms <->
    exists ch, find_decl n = Some ch /\ parse_children flds grp (expand k) ch [] false = inr (ms, false).
  Proof.
    intros k n ms. simpl. destruct (find_decl n) as [ch|].
    - destruct (parse_children flds grp (expand k) ch [] false) as [e|[ms' [|]]] eqn:E; split.
      + discriminate.
      + intros [ch' [E1 E2]]. inversion E1; subst. congruence.
      + discriminate.
      + intros [ch' [E1 E2]]. inversion E1; subst. congruence.
      + intro H. inversion H; subst. exists ch. auto.
      + intros [ch' [E1 E2]]. inversion E1; subst. congruence.
    - split; [discriminate | intros [ch [E _]]; discriminate].
  Qed.

  Lemma expand_step : forall k, sub (expand k) (expand (S k)).
  Proof.
    induction k as [|k IH]; intros n ms H.
    - discriminate.
    - apply expand_S in H. destruct H as [ch [Hd Hp]]. apply expand_S. exists ch. split; [exact Hd|].
      apply (mono_children flds grp (expand k) (expand (S k)) IH). exact Hp.
  Qed.

  Lemma expand_le : forall k k', k <= k' -> sub (expand k) (expand k').
  Proof.
    intros k k' H. induction H as [|k' H IH]; [apply sub_refl|].
    eapply sub_trans; [exact IH | apply expand_step].
  Qed.

  Lemma expand_fun : forall k k' n a b, expand k n = Some a -> expand k' n = Some b -> a = b.
  Proof.
    intros k k' n a b Ha Hb.
    apply (expand_le k (max k k') (Nat.le_max_l _ _)) in Ha.
    apply (expand_le k' (max k k') (Nat.le_max_r _ _)) in Hb. congruence.
  Qed.

  Hypothesis Hcs : NoDup (map fst cs).

  Lemma find_decl_In : forall n ch, In (n, ch) cs -> find_decl n = Some ch.
  Proof.
    intros n ch Hin. unfold find_decl.
    destruct (find (fun c => N.eqb (fst c) n) cs) as [[n' ch']|] eqn:E.
    - apply find_some in E. destruct E as [Hin' E]. simpl in E. apply N.eqb_eq in E. subst n'.
      simpl. f_equal. eapply nodup_fst_inj; eassumption.
    - exfalso. apply (find_none _ _ E) in Hin. simpl in Hin. rewrite N.eqb_refl in Hin. discriminate.
  Qed.

  Lemma find_decl_Some : forall n ch, find_decl n = Some ch -> In (n, ch) cs.
  Proof.
    intros n ch H. unfold find_decl in H.
    destruct (find (fun c => N.eqb (fst c) n) cs) as [[n' ch']|] eqn:E; [|discriminate].
    simpl in H. inversion H; subst. apply find_some in E. destruct E as [Hin E]. simpl in E.
    apply N.eqb_eq in E. subst. exact Hin.
  Qed.

  (* --- what the table holds is what [expand] says --- *)
  Definition cm_ok (cm : cmap) : Prop := Forall (fun p => exists k, expand k (fst p) = Some (snd p)) cm.

  Lemma cm_bound : forall cm, cm_ok cm -> exists K, sub (lookup cm) (expand K).
  Proof.
    intros cm H.
    assert (exists K, Forall (fun p => expand K (fst p) = Some (snd p)) cm) as [K HK].
    { induction H as [|p cm [k Hk] _ [K IH]].
      - exists 0. constructor.
      - exists (max k K). constructor.
        + apply (expand_le k _ (Nat.le_max_l _ _)). exact Hk.
        + eapply Forall_impl; [|exact IH]. intros q Hq.
          apply (expand_le K _ (Nat.le_max_r _ _)). exact Hq. }
    exists K. intros n ms Hl. apply lookup_In in Hl. rewrite Forall_forall in HK. apply (HK (n, ms) Hl).
  Qed.

  Lemma cm_ok_snoc : forall cm n ms k, cm_ok cm -> expand k n = Some ms -> cm_ok (cm ++ [(n, ms)]).
  Proof.
    intros cm n ms k H Hk. unfold cm_ok. apply Forall_app. split; [exact H|].
    constructor; [exists k; exact Hk | constructor].
  Qed.

  Notation attempt' := (attempt flds grp).
  Notation sweep' := (sweep flds grp).
  Notation resolve' := (resolve flds grp).

  Lemma attempt_parsed : forall cm n ch ms,
    cm_ok cm -> In (n, ch) cs -> attempt' cm (n, ch) = AParsed ms -> exists k, expand k n = Some ms.
  Proof.
    intros cm n ch ms Hok Hin H. unfold attempt in H. simpl in H.
    destruct (has_key cm n); [discriminate|].
    destruct (parse_children flds grp (lookup cm) ch [] false) as [e|[ms' [|]]] eqn:E; try discriminate.
    inversion H; subst ms'. destruct (cm_bound cm Hok) as [K HK]. exists (S K).
    apply expand_S. exists ch. split; [apply find_decl_In; exact Hin|].
    apply (mono_children flds grp (lookup cm) (expand K) HK). exact E.
  Qed.

  (* --- one pass --- *)
  Lemma sweep_len : forall pending cm cm' rest,
    sweep' cm pending = inr (cm', rest) -> length rest <= length pending.
  Proof.
    induction pending as [|c r IH]; intros cm cm' rest H; simpl in H.
    - inversion H. simpl. lia.
    - destruct (attempt' cm c) as [ms| |e]; [| |discriminate].
      + apply IH in H. simpl. lia.
      + destruct (sweep' cm r) as [e|[cm1 rest1]] eqn:E; [discriminate|]. inversion H; subst.
        apply IH in E. simpl. lia.
  Qed.

  Lemma sweep_shape : forall pending cm cm' rest,
    sweep' cm pending = inr (cm', rest) ->
    exists parsed, cm' = cm ++ parsed
      /\ Permutation (map fst pending) (map fst parsed ++ map fst rest)
      /\ incl rest pending.
  Proof.
    induction pending as [|c r IH]; intros cm cm' rest H; simpl in H.
    - inversion H; subst. exists []. rewrite app_nil_r. split; [reflexivity|]. split; [constructor | apply incl_refl].
    - destruct (attempt' cm c) as [ms| |e] eqn:Ea; [| |discriminate].
      + destruct (IH _ _ _ H) as [parsed [-> [Hp Hi]]]. exists ((fst c, ms) :: parsed).
        split; [rewrite <- app_assoc; reflexivity|]. split.
        * simpl. constructor. exact Hp.
        * apply incl_tl. exact Hi.
      + destruct (sweep' cm r) as [e|[cm1 rest1]] eqn:E; [discriminate|]. inversion H; subst.
        destruct (IH _ _ _ E) as [parsed [-> [Hp Hi]]]. exists parsed.
        split; [reflexivity|]. split.
        * simpl. apply Permutation_cons_app. exact Hp.
        * intros x [<-|Hx]; [left; reflexivity | right; apply Hi; exact Hx].
  Qed.

  Lemma sweep_ok : forall pending cm cm' rest,
    cm_ok cm -> incl pending cs -> sweep' cm pending = inr (cm', rest) -> cm_ok cm'.
  Proof.
    induction pending as [|[n ch] r IH]; intros cm cm' rest Hok Hi H; simpl in H.
    - inversion H; subst. exact Hok.
    - assert (Hr : incl r cs) by (intros x Hx; apply Hi; right; exact Hx).
      destruct (attempt' cm (n, ch)) as [ms| |e] eqn:Ea; [| |discriminate].
      + destruct (attempt_parsed cm n ch ms Hok (Hi _ (or_introl eq_refl)) Ea) as [k Hk].
        apply (IH _ _ _ (cm_ok_snoc cm n ms k Hok Hk) Hr H).
      + destruct (sweep' cm r) as [e|[cm1 rest1]] eqn:E; [discriminate|]. inversion H; subst.
        apply (IH _ _ _ Hok Hr E).
  Qed.

  Lemma sweep_noprogress : forall pending cm cm' rest,
    sweep' cm pending = inr (cm', rest) -> length rest = length pending ->
    cm' = cm /\ forall c, In c pending -> attempt' cm c = ADefer.
  Proof.
    induction pending as [|c r IH]; intros cm cm' rest H Hl; simpl in H.
    - inversion H; subst. split; [reflexivity | intros c []].
    - destruct (attempt' cm c) as [ms| |e] eqn:Ea; [| |discriminate].
      + apply sweep_len in H. simpl in Hl. lia.
      + destruct (sweep' cm r) as [e|[cm1 rest1]] eqn:E; [discriminate|]. inversion H; subst.
        simpl in Hl. destruct (IH _ _ _ E (eq_add_S _ _ Hl)) as [-> Hd].
        split; [reflexivity|]. intros c' [<-|Hin]; [exact Ea | apply Hd; exact Hin].
  Qed.

  (* --- the invariant of the retry loop --- *)
  Definition inv (cm : cmap) (pending : list rcomp) : Prop :=
    cm_ok cm /\ incl pending cs /\ NoDup (map fst cm ++ map fst pending)
    /\ (forall n, In n (map fst cs) <-> In n (map fst cm ++ map fst pending)).

  Lemma inv_init : inv [] cs.
  Proof.
    split; [constructor|]. split; [apply incl_refl|]. split; [exact Hcs|]. intro n. simpl. tauto.
  Qed.

  Lemma inv_sweep : forall cm pending cm' rest,
    inv cm pending -> sweep' cm pending = inr (cm', rest) -> inv cm' rest.
  Proof.
    intros cm pending cm' rest [Hok [Hi [Hnd Hall]]] H.
    destruct (sweep_shape _ _ _ _ H) as [parsed [-> [Hp Hir]]].
    assert (HP : Permutation (map fst cm ++ map fst pending) (map fst (cm ++ parsed) ++ map fst rest)).
    { rewrite map_app, <- app_assoc. apply Permutation_app_head. exact Hp. }
    split; [eapply sweep_ok; eassumption|].
    split; [eapply incl_tran; eassumption|].
    split; [eapply Permutation_NoDup; eassumption|].
    intro n. rewrite Hall. split; intro Hn.
    - eapply Permutation_in; eassumption.
    - eapply Permutation_in; [apply Permutation_sym; exact HP | exact Hn].
  Qed.

  (* --- soundness: what the loop returns is the meaning of every declared component --- *)
  Lemma resolve_sound : forall fuel cm pending cmf,
    inv cm pending -> resolve' fuel cm pending = inr cmf -> inv cmf [].
  Proof.
    induction fuel as [|fuel IH]; intros cm pending cmf Hinv H; destruct pending as [|c r].
    - inversion H; subst. exact Hinv.
    - discriminate.
    - inversion H; subst. exact Hinv.
    - cbn [resolve] in H. destruct (sweep' cm (c :: r)) as [e|[cm' rest]] eqn:E; [discriminate|].
      pose proof (inv_sweep _ _ _ _ Hinv E) as Hinv'. destruct rest as [|c' rest'].
      + inversion H; subst. exact Hinv'.
      + destruct (Nat.eqb (length (c' :: rest')) (length (c :: r))); [discriminate|].
        apply (IH _ _ _ Hinv' H).
  Qed.

  Lemma inv_final : forall cmf, inv cmf [] ->
    (forall n, In n (map fst cs) -> exists ms k, lookup cmf n = Some ms /\ expand k n = Some ms)
    /\ (forall n, ~ In n (map fst cs) -> lookup cmf n = None).
  Proof.
    intros cmf [Hok [_ [_ Hall]]]. split.
    - intros n Hn. apply Hall in Hn. rewrite app_nil_r in Hn.
      destruct (lookup_key cmf n Hn) as [ms Hl]. exists ms.
      unfold cm_ok in Hok. rewrite Forall_forall in Hok.
      destruct (Hok (n, ms) (lookup_In _ _ _ Hl)) as [k Hk]. exists k. auto.
    - intros n Hn. apply lookup_none. intro Hk. apply Hn. apply Hall. rewrite app_nil_r. exact Hk.
  Qed.

  (* --- completeness: if every declared component has a meaning the loop finds it --- *)
  Hypothesis Hall : forall n, In n (map fst cs) -> exists k ms, expand k n = Some ms.

  Lemma attempt_no_error : forall cm n ch e,
    cm_ok cm -> In (n, ch) cs -> ~ In n (map fst cm) -> attempt' cm (n, ch) <> AErr e.
  Proof.
    intros cm n ch e Hok Hin Hnk H. unfold attempt in H. simpl in H.
    destruct (has_key cm n) eqn:Ek; [apply has_key_In in Ek; contradiction|].
    destruct (Hall n) as [k [ms Hk]]. { apply in_map_iff. exists (n, ch). auto. }
    destruct k as [|k]; [discriminate|]. apply expand_S in Hk. destruct Hk as [ch' [Hd Hp]].
    rewrite (find_decl_In n ch Hin) in Hd. inversion Hd; subst ch'.
    destruct (cm_bound cm Hok) as [K HK].
    assert (Hfull : parse_children flds grp (expand (max K k)) ch [] false = inr (ms, false)).
    { apply (mono_children flds grp (expand k) _ (expand_le k _ (Nat.le_max_r _ _))). exact Hp. }
    assert (Hsub : sub (lookup cm) (expand (max K k))).
    { eapply sub_trans; [exact HK | apply expand_le, Nat.le_max_l]. }
    destruct (sub_children flds grp (lookup cm) _ Hsub ch [] [] false false ms false (incl_refl _) Hfull)
      as [r1 [e1 [E1 _]]].
    rewrite E1 in H. destruct e1; discriminate.
  Qed.

  Lemma sweep_no_error : forall pending cm,
    cm_ok cm -> incl pending cs -> NoDup (map fst cm ++ map fst pending) ->
    exists cm' rest, sweep' cm pending = inr (cm', rest).
  Proof.
    induction pending as [|[n ch] r IH]; intros cm Hok Hi Hnd; simpl.
    - eauto.
    - assert (Hr : incl r cs) by (intros x Hx; apply Hi; right; exact Hx).
      assert (Hin : In (n, ch) cs) by (apply Hi; left; reflexivity).
      simpl in Hnd.
      assert (Hnk : ~ In n (map fst cm)).
      { intro Hk. apply NoDup_remove_2 in Hnd. apply Hnd. apply in_or_app. left. exact Hk. }
      destruct (attempt' cm (n, ch)) as [ms| |e] eqn:Ea.
      + destruct (attempt_parsed cm n ch ms Hok Hin Ea) as [k Hk].
        apply IH; [eapply cm_ok_snoc; eassumption | exact Hr |].
        rewrite map_app, <- app_assoc. exact Hnd.
      + destruct (IH cm Hok Hr (NoDup_remove_1 _ _ _ Hnd)) as [cm' [rest E]]. rewrite E. eauto.
      + exfalso. eapply attempt_no_error; eassumption.
  Qed.

  Lemma no_progress_impossible : forall cm pending cm' rest,
    inv cm pending -> pending <> [] -> sweep' cm pending = inr (cm', rest) ->
    length rest = length pending -> False.
  Proof.
    intros cm pending cm' rest [Hok [Hi [Hnd Hdecl]]] Hne H Hl.
    destruct (sweep_noprogress _ _ _ _ H Hl) as [-> Hdefer].
    assert (Hsub : forall k, sub (expand k) (lookup cm)).
    { induction k as [|k IHk]; intros n ms Hk; [discriminate|].
      apply expand_S in Hk. destruct Hk as [ch [Hd Hp]].
      pose proof (mono_children flds grp (expand k) (lookup cm) IHk ch [] false ms Hp) as Hp'.
      assert (Hn : In n (map fst cs)).
      { apply find_decl_Some in Hd. apply in_map_iff. exists (n, ch). auto. }
      apply Hdecl in Hn. apply in_app_or in Hn. destruct Hn as [Hk|Hpn].
      - destruct (lookup_key cm n Hk) as [ms0 Hl0]. rewrite Hl0. f_equal.
        unfold cm_ok in Hok. rewrite Forall_forall in Hok.
        destruct (Hok (n, ms0) (lookup_In _ _ _ Hl0)) as [k0 Hk0]. simpl in Hk0.
        eapply expand_fun; [exact Hk0|]. apply expand_S. exists ch. split; [exact Hd | exact Hp].
      - exfalso. apply in_map_iff in Hpn. destruct Hpn as [[n' ch'] [E Hin]]. simpl in E. subst n'.
        assert (ch' = ch).
        { pose proof (find_decl_In n ch' (Hi _ Hin)) as Hd'. congruence. }
        subst ch'. pose proof (Hdefer _ Hin) as Ha. unfold attempt in Ha. simpl in Ha.
        assert (has_key cm n = false) as Ek.
        { destruct (has_key cm n) eqn:Ek; [|reflexivity]. exfalso. apply has_key_In in Ek.
          apply in_split in Hin. destruct Hin as [l1 [l2 ->]]. rewrite map_app in Hnd. simpl in Hnd.
          rewrite app_assoc in Hnd. apply NoDup_remove_2 in Hnd. apply Hnd.
          apply in_or_app. left. apply in_or_app. left. exact Ek. }
        rewrite Ek, Hp' in Ha. discriminate. }
    destruct pending as [|[n ch] r]; [contradiction|].
    destruct (Hall n) as [k [ms Hk]].
    { apply in_map_iff. exists (n, ch). split; [reflexivity | apply Hi; left; reflexivity]. }
    apply Hsub in Hk. apply lookup_In in Hk. simpl in Hnd.
    apply NoDup_remove_2 in Hnd. apply Hnd. apply in_or_app. left.
    apply in_map_iff. exists (n, ms). auto.
  Qed.

  Lemma resolve_complete : forall fuel cm pending,
    inv cm pending -> length pending <= fuel -> exists cmf, resolve' fuel cm pending = inr cmf.
  Proof.
    induction fuel as [|fuel IH]; intros cm pending Hinv Hf; destruct pending as [|c r].
    - eexists. reflexivity.
    - simpl in Hf. lia.
    - eexists. reflexivity.
    - cbn [resolve]. pose proof Hinv as [Hok [Hi [Hnd _]]].
      destruct (sweep_no_error (c :: r) cm Hok Hi Hnd) as [cm' [rest E]]. rewrite E.
      destruct rest as [|c' rest']; [eexists; reflexivity|].
      destruct (Nat.eqb (length (c' :: rest')) (length (c :: r))) eqn:El.
      + exfalso. apply Nat.eqb_eq in El.
        eapply (no_progress_impossible cm (c :: r)); [exact Hinv | discriminate | exact E | exact El].
      + apply IH; [eapply inv_sweep; eassumption|].
        apply Nat.eqb_neq in El. pose proof (sweep_len _ _ _ _ E). simpl in *. lia.
  Qed.
End Meaning.

(* the fuel of [resolve] (= number of declarations) is never exhausted: more fuel changes nothing *)
Lemma resolve_fuel2 : forall flds grp f1 f2 cm pending,
  length pending <= f1 -> length pending <= f2 ->
  resolve flds grp f1 cm pending = resolve flds grp f2 cm pending.
Proof.
  intros flds grp. induction f1 as [|f1 IH]; intros f2 cm pending H1 H2; destruct pending as [|c r].
  - destruct f2; reflexivity.
  - simpl in H1. lia.
  - destruct f2; reflexivity.
  - destruct f2 as [|f2]; [simpl in H2; lia|]. cbn [resolve].
    destruct (sweep flds grp cm (c :: r)) as [e|[cm' rest]] eqn:E; [reflexivity|].
    destruct rest as [|c' rest']; [reflexivity|].
    destruct (Nat.eqb (length (c' :: rest')) (length (c :: r))) eqn:El; [reflexivity|].
    apply Nat.eqb_neq in El. pose proof (sweep_len _ _ _ _ _ _ E) as Hl.
    apply IH; simpl in *; lia.
Qed.

Lemma resolve_fuel : forall flds grp fuel cm pending,
  length pending <= fuel ->
  resolve flds grp fuel cm pending = resolve flds grp (length pending) cm pending.
Proof. intros. apply resolve_fuel2; [assumption | apply le_n]. Qed.

(* ------------------------------------------------------------------ declaration order *)

Section Order.
  Variable flds : list field.
  Variable grp : list N.
  Variables cs cs' : list rcomp.
  Hypothesis Hcs : NoDup (map fst cs).
  Hypothesis Hperm : Permutation cs cs'.

  Lemma perm_nodup : NoDup (map fst cs').
  Proof. eapply Permutation_NoDup; [apply Permutation_map; exact Hperm | exact Hcs]. Qed.

  Lemma find_decl_perm : forall n, find_decl cs n = find_decl cs' n.
  Proof.
    intro n. destruct (find_decl cs n) as [ch|] eqn:E.
    - apply find_decl_Some in E. symmetry. apply (find_decl_In cs' perm_nodup).
      eapply Permutation_in; eassumption.
    - destruct (find_decl cs' n) as [ch'|] eqn:E'; [|reflexivity].
      apply find_decl_Some in E'. apply Permutation_sym in Hperm.
      pose proof (find_decl_In cs Hcs n ch' (Permutation_in _ Hperm E')). congruence.
  Qed.

  Lemma expand_perm : forall k n, expand flds grp cs k n = expand flds grp cs' k n.
  Proof.
    induction k as [|k IH]; intro n; simpl; [reflexivity|].
    rewrite find_decl_perm. destruct (find_decl cs' n) as [ch|]; [|reflexivity].
    rewrite (ext_children flds grp _ _ IH). reflexivity.
  Qed.

  Lemma names_perm : forall n, In n (map fst cs) <-> In n (map fst cs').
  Proof.
    intro n. split; apply Permutation_in; [|apply Permutation_sym]; apply Permutation_map; exact Hperm.
  Qed.

  Theorem resolve_perm : forall cm,
    resolve flds grp (length cs) [] cs = inr cm ->
    exists cm', resolve flds grp (length cs') [] cs' = inr cm' /\ forall n, lookup cm n = lookup cm' n.
  Proof.
    intros cm H.
    pose proof (resolve_sound flds grp cs Hcs _ _ _ _ (inv_init flds grp cs Hcs) H) as Hinv.
    destruct (inv_final flds grp cs cm Hinv) as [Hdecl Hund].
    assert (Hall' : forall n, In n (map fst cs') -> exists k ms, expand flds grp cs' k n = Some ms).
    { intros n Hn. apply names_perm in Hn. destruct (Hdecl n Hn) as [ms [k [_ Hk]]].
      exists k, ms. rewrite <- expand_perm. exact Hk. }
    destruct (resolve_complete flds grp cs' perm_nodup Hall' (length cs') [] cs'
                (inv_init flds grp cs' perm_nodup) (le_n _)) as [cm' H'].
    exists cm'. split; [exact H'|].
    pose proof (resolve_sound flds grp cs' perm_nodup _ _ _ _ (inv_init flds grp cs' perm_nodup) H') as Hinv'.
    destruct (inv_final flds grp cs' cm' Hinv') as [Hdecl' Hund'].
    intro n. destruct (in_dec N.eq_dec n (map fst cs)) as [Hn|Hn].
    - destruct (Hdecl n Hn) as [ms [k [Hl Hk]]].
      destruct (Hdecl' n (proj1 (names_perm n) Hn)) as [ms' [k' [Hl' Hk']]].
      rewrite <- expand_perm in Hk'. rewrite Hl, Hl'. f_equal. eapply expand_fun; eassumption.
    - rewrite (Hund n Hn). symmetry. apply Hund'. intro Hn'. apply Hn. apply names_perm. exact Hn'.
  Qed.
End Order.

Theorem parse_order_independent : forall r cs',
  NoDup (map fst (r_comps r)) -> Permutation (r_comps r) cs' ->
  forall s, parse r = inr s -> parse_with r cs' = inr s.
Proof.
  intros r cs' Hnd Hp s H. unfold parse, parse_with in *.
  destruct (parse_children (r_fields r) (r_groupable r) (fun _ => None) (r_header r) [] false)
    as [e|[hms hd]]; [discriminate|].
  destruct (resolve (r_fields r) (r_groupable r) (length (r_comps r)) [] (r_comps r)) as [e|cm] eqn:E;
    [discriminate|].
  destruct (resolve_perm _ _ _ _ Hnd Hp cm E) as [cm' [E' Hl]]. rewrite E'.
  rewrite <- (ext_messages _ _ _ _ Hl). exact H.
Qed.

Theorem parse_order_iff : forall r cs',
  NoDup (map fst (r_comps r)) -> Permutation (r_comps r) cs' ->
  forall s, parse r = inr s <-> parse_with r cs' = inr s.
Proof.
  intros r cs' Hnd Hp s. split; [apply parse_order_independent; assumption|].
  intro H.
  pose (r' := mkRaw (r_fields r) (r_groupable r) (r_header r) cs' (r_msgs r)).
  change (parse r' = inr s) in H.
  apply (parse_order_independent r' (r_comps r)) in H; [exact H | |].
  - simpl. eapply Permutation_NoDup; [apply Permutation_map; exact Hp | exact Hnd].
  - simpl. apply Permutation_sym. exact Hp.
Qed.

Theorem components_order_independent : forall r cs',
  NoDup (map fst (r_comps r)) -> Permutation (r_comps r) cs' ->
  forall cm, components_of r (r_comps r) = inr cm ->
  exists cm', components_of r cs' = inr cm' /\ forall n, lookup cm n = lookup cm' n.
Proof. intros r cs' Hnd Hp cm H. unfold components_of in *. eapply resolve_perm; eassumption. Qed.

Theorem validate_order_independent : forall r cs',
  NoDup (map fst (r_comps r)) -> Permutation (r_comps r) cs' ->
  forall s, parse r = inr s ->
  exists s', parse_with r cs' = inr s' /\
             forall vc m, validate vc s' m = validate vc s m.
Proof.
  intros r cs' Hnd Hp s H. exists s. split; [apply parse_order_independent; assumption | reflexivity].
Qed.

(* a declaration list whose references cannot all be resolved fails in every order *)
Theorem parse_failure_order_independent : forall r cs',
  NoDup (map fst (r_comps r)) -> Permutation (r_comps r) cs' ->
  (exists e, parse r = inl e) <-> (exists e, parse_with r cs' = inl e).
Proof.
  intros r cs' Hnd Hp. split; intros [e H].
  - destruct (parse_with r cs') as [e'|s] eqn:E; [eauto|].
    apply (proj2 (parse_order_iff r cs' Hnd Hp s)) in E. congruence.
  - destruct (parse r) as [e'|s] eqn:E; [eauto|].
    apply (parse_order_independent r cs' Hnd Hp s) in E. congruence.
Qed.

(* ------------------------------------------------------------------ instances: the two dictionaries *)

(* the parse model, run on the raw declarations read with xml.etree, yields exactly the dump of
   the objects the real parser built from the same files *)
Lemma fix44_parse : parse GenSchema.FIX44.decls = inr GenSchema.FIX44.schema.
Proof. vm_cast_no_check (eq_refl (@inr perr schema GenSchema.FIX44.schema)). Qed.

Lemma tt_parse : parse GenSchema.TT.decls = inr GenSchema.TT.schema.
Proof. vm_cast_no_check (eq_refl (@inr perr schema GenSchema.TT.schema)). Qed.

Lemma fix44_comps_nodup : NoDup (map fst (r_comps GenSchema.FIX44.decls)).
Proof. apply nodupN_NoDup. vm_compute. reflexivity. Qed.

Lemma fix44_comps_count : length (r_comps GenSchema.FIX44.decls) = 104.
Proof. vm_compute. reflexivity. Qed.

Theorem fix44_any_order : forall cs',
  Permutation (r_comps GenSchema.FIX44.decls) cs' ->
  parse_with GenSchema.FIX44.decls cs' = inr GenSchema.FIX44.schema.
Proof.
  intros cs' Hp. apply parse_order_independent; [exact fix44_comps_nodup | exact Hp | exact fix44_parse].
Qed.
