#!/bin/bash
# Development tool: re-verify every seeded change against the current /repo HEAD:
# patch applies, 192 tests pass, demo exits 0 without and non-zero with the patch. With --checks also runs the property check.
WT=$(mktemp -d /tmp/vs_XXXXXX); rmdir $WT
git -C /repo worktree add --detach $WT HEAD >/dev/null 2>&1
trap 'git -C /repo worktree remove --force $WT >/dev/null 2>&1' EXIT
for d in /verif/seeded/*/; do
  id=$(basename $d); pid=${id%%-*}
  if [ -n "$ONLY" ] && [[ " $ONLY " != *" $pid "* ]]; then continue; fi
  git -C $WT checkout -q -- . ; git -C $WT clean -fdq
  timeout 60 /venv/bin/python $d/demo.py $WT >/dev/null 2>&1; d0=$?
  if ! git -C $WT apply $d/patch.diff 2>/dev/null; then echo "$id DOES-NOT-APPLY demo_head=$d0"; continue; fi
  t=$(cd $WT && timeout 900 /venv/bin/python -m pytest -q -p no:cacheprovider --timeout=900 2>&1 | tail -1 | cut -d' ' -f1-2)
  timeout 60 /venv/bin/python $d/demo.py $WT >/dev/null 2>&1; d1=$?
  line="$id tests=[$t] demo_head=$d0 demo_patched=$d1"
  if [[ " $* " == *" --checks "* ]]; then
    r=$(cd /verif && VERIF_REPO=$WT timeout 1800 ./run $pid quick 2>&1 | grep -v "^KNOWN" | tail -1 | cut -c1-90)
    line="$line | $r"
  fi
  echo "$line"
done
