"""Dump of the PARSED schema objects of tests/FIX44.xml and tests/TT-FIX44.xml as Coq data (C15).

What is dumped is what FIXSchema.validate reads, not the XML: the field table (`_tag2field`),
the header set, and per message type (`_messages_types`) the ordered members with the
`required[...]` entry validate consults, nested groups recursively.  The parse algorithm
(deferred component resolution) is modelled separately (Fix/SchemaParse.v) over the raw
declarations emitted below as `decls`.

Plain-data form (also used by harness/c15.py, which imports `dump` / `load_plain`):
  {"types": [ftype, ...], "names": [field name, ...],
   "fields": [(tag, name, ftype, has_enum), ...],
   "header": [member, ...], "messages": [(msg_type, message name, [member, ...]), ...]}
  member = ("F", tag, required) | ("G", tag, required, [member, ...])

Coq form (module FIX44 / TT of coq/gen/GenSchema.v, over AF.Fix.SchemaModel):
  one `Definition f<tag> : field := mkField <tag code points> <name code> <type code> <has enum>`
  per field (name code = index in the sorted list of distinct field names, so equality of codes
  is equality of names, which is all SchemaField.__eq__/__hash__ look at; the name itself is in
  the comment), `fields`, `header`, one `Definition m<i> : list member` per message type and
  `schema : schema`.  Members refer to the shared field definitions, like the Python objects do.

Fail-closed checks (an exception here is a broken obligation of C15): every abstraction the Coq
schema type makes of the Python objects is verified on the objects - member dict key is the
member itself, `required` has the same keys and holds a bool for every member (a dict there is
ledger item D3, repaired by fixes/C15-required-groups-header-members.patch), member fields are
the objects of the field table, group fields are in the table, message types are the dict keys.

Each module also carries `decls : raw`, the RAW declarations of the same XML file read with
xml.etree directly (raw_of_root: fields in XML order, header / component / message children as
field refs, component refs and nested groups) - the input of the parse model Fix/SchemaParse.v;
Props/C15.v checks by computation that `parse decls = inr schema` for both files."""
import os
import warnings

from vlib import core

NAME = "GenSchema"
DICTS = [("FIX44", "tests/FIX44.xml"), ("TT", "tests/TT-FIX44.xml")]
SOURCES = ["asyncfix/protocol/schema.py", "tests/FIX44.xml", "tests/TT-FIX44.xml"]


def _member(schema, owner, key, val, path, strict):
    from asyncfix.protocol.schema import SchemaField, SchemaGroup

    if key is not val:
        raise ValueError("member key is not the member object at %s" % path)
    req = owner.required[key]
    declared = val.field_required if isinstance(val, SchemaGroup) else req
    if strict:
        if not isinstance(req, bool):
            raise ValueError("required[%s] at %s is a %s, not a bool (ledger D3: the parser stores the group's "
                             "member dict as its required flag)" % (getattr(val, "name", val), path, type(req).__name__))
        if req != declared:
            raise ValueError("required[%s] at %s differs from the group's declared flag" % (val.name, path))
    else:
        req = bool(declared)      # what the dictionary declares (used by the harness oracle)
    if isinstance(val, SchemaField):
        if schema._tag2field.get(val.tag) is not val:
            raise ValueError("member field %s at %s is not the object of the field table" % (val, path))
        return ("F", val.tag, req)
    if isinstance(val, SchemaGroup):
        if schema._tag2field.get(val.field.tag) is not val.field:
            raise ValueError("group field %s at %s is not the object of the field table" % (val.field, path))
        if list(val.members.keys()) != list(val.required.keys()):
            raise ValueError("members/required keys differ in group %s at %s" % (val.name, path))
        sub = [_member(schema, val, k, v, path + "/" + val.name, strict) for k, v in val.members.items()]
        return ("G", val.field.tag, req, sub)
    raise ValueError("unexpected member type %s at %s" % (type(val).__name__, path))


def dump(schema, strict=True):
    """Plain-data dump of a parsed FIXSchema (see module docstring).  strict=False (harness oracle):
    the required flag of a group is the one the dictionary declares (SchemaGroup.field_required)
    even if the entry validate consults is something else."""
    from asyncfix.protocol.schema import SchemaSet

    fields = []
    for tag, f in schema._tag2field.items():
        if not (isinstance(tag, str) and tag == f.tag and isinstance(f.name, str) and isinstance(f.ftype, str)):
            raise ValueError("field table entry %r" % (tag,))
        fields.append((f.tag, f.name, f.ftype, bool(f.values)))
    if not isinstance(schema._header, SchemaSet):
        raise ValueError("header is a %s" % type(schema._header).__name__)

    def members(owner, path):
        if list(owner.members.keys()) != list(owner.required.keys()):
            raise ValueError("members/required keys differ in %s" % path)
        return [_member(schema, owner, k, v, path, strict) for k, v in owner.members.items()]

    msgs = []
    for mt, m in schema._messages_types.items():
        if not isinstance(mt, str) or m.msg_type != mt:
            raise ValueError("message type key %r" % (mt,))
        msgs.append((mt, m.name, members(m, m.name)))
    return {
        "types": sorted({f[2] for f in fields}),
        "names": sorted({f[1] for f in fields}),
        "fields": fields,
        "header": members(schema._header, "Header"),
        "messages": msgs,
    }


def load(rel_or_tree):
    """Parse with the real FIXSchema (a path relative to the repo, or an ElementTree)."""
    from asyncfix.protocol.schema import FIXSchema

    with warnings.catch_warnings():
        warnings.simplefilter("ignore")
        if isinstance(rel_or_tree, str):
            return FIXSchema(os.path.join(core.REPO, rel_or_tree))
        return FIXSchema(rel_or_tree)


def load_plain(rel, strict=True):
    s = load(rel)
    return s, dump(s, strict)


# ------------------------------------------------------------------------------------ raw declarations

def raw_of_root(root):
    """The declarations as xml.etree gives them (NOT through the library's parser), input of the
    Coq parse model coq/theories/Fix/SchemaParse.v:
      {"fields": [(tag, name, ftype, has_enum)] in XML order, "names", "types" (sorted distinct),
       "groupable": [field name accepted by SchemaSet.__init__ as a group field],
       "header": [child], "comps": [(component name, [child])], "msgs": [(name, msgtype, [child])],
       "cnames": component names in order of first appearance (declared or referenced),
       "mnames": message names in order of first appearance}
      child = ("F", field name, required) | ("C", component name) | ("G", field name, required, [child])"""
    from asyncfix.protocol.schema import SchemaField, SchemaSet

    fields = []
    for el in root.find("fields"):
        if el.tag != "field":
            raise ValueError("unexpected <%s> in <fields>" % el.tag)
        fields.append((el.attrib["number"], el.attrib["name"], el.attrib["type"], len(el) > 0))
    groupable = []
    for tag, name, ftype, _ in fields:
        try:
            SchemaSet("x", SchemaField(tag=tag, name=name, ftype=ftype))   # tabulates the real constructor's test
            if name not in groupable:
                groupable.append(name)
        except ValueError:
            pass
    cnames, mnames = [], []

    def note(lst, x):
        if x not in lst:
            lst.append(x)

    def children(el):
        out = []
        for ch in el:
            if ch.tag == "field":
                out.append(("F", ch.attrib["name"], ch.attrib["required"].upper() == "Y"))
            elif ch.tag == "component":
                note(cnames, ch.attrib["name"])
                out.append(("C", ch.attrib["name"]))
            elif ch.tag == "group":
                out.append(("G", ch.attrib["name"], ch.attrib["required"].upper() == "Y", children(ch)))
            else:
                raise ValueError("unexpected <%s> inside <%s>" % (ch.tag, el.tag))
        return out

    comps = []
    for el in root.find("components"):
        if el.tag != "component":
            raise ValueError("unexpected <%s> in <components>" % el.tag)
        note(cnames, el.attrib["name"])
        comps.append((el.attrib["name"], children(el)))
    header = children(root.find("header"))
    msgs = []
    for el in root.find("messages"):
        if el.tag != "message":
            raise ValueError("unexpected <%s> in <messages>" % el.tag)
        el.attrib["msgcat"]
        note(mnames, el.attrib["name"])
        msgs.append((el.attrib["name"], el.attrib["msgtype"], children(el)))
    return {"fields": fields, "names": sorted({f[1] for f in fields}), "types": sorted({f[2] for f in fields}),
            "groupable": groupable, "header": header, "comps": comps, "msgs": msgs,
            "cnames": cnames, "mnames": mnames}


def raw_codes(raw):
    """name -> code maps of a raw dump; an undeclared field name gets a code past the table."""
    ncode = {n: i for i, n in enumerate(raw["names"])}
    extra = []

    def fcode(name):
        if name in ncode:
            return ncode[name]
        if name not in extra:
            extra.append(name)
        return len(ncode) + extra.index(name)
    return fcode, {t: i for i, t in enumerate(raw["types"])}, {c: i for i, c in enumerate(raw["cnames"])}, \
        {m: i for i, m in enumerate(raw["mnames"])}


# ------------------------------------------------------------------------------------ Coq text

def cstr(s):
    return "[" + ";".join(str(ord(c)) for c in s) + "]"


def cbool(b):
    return "true" if b else "false"


def fname(tag):
    if tag.isascii() and tag.isdigit():
        return "f" + tag
    return "fx" + "_".join(str(ord(c)) for c in tag)


def coq_member(m, out, ind):
    if m[0] == "F":
        out.append("%sMField %s %s" % (ind, fname(m[1]), cbool(m[2])))
    else:
        sub = []
        for x in m[3]:
            coq_member(x, sub, ind + " ")
        out.append("%sMGroup %s %s [\n%s]" % (ind, fname(m[1]), cbool(m[2]), ";\n".join(sub)))


def coq_members(ms):
    out = []
    for m in ms:
        coq_member(m, out, "  ")
    return "[\n" + ";\n".join(out) + "]" if out else "[]"


def count(ms):
    return sum(1 + (count(m[3]) if m[0] == "G" else 0) for m in ms)


def coq_module(modname, d, raw=None):
    tcode = {t: i for i, t in enumerate(d["types"])}
    ncode = {n: i for i, n in enumerate(d["names"])}
    t = "Module %s.\n\n" % modname
    t += "(* datatype codes: %s *)\n" % ", ".join("%d=%s" % (i, x) for x, i in tcode.items())
    t += "Definition type_names : list str :=\n  [%s].\n\n" % ";\n   ".join(cstr(x) for x in d["types"])
    seen = set()
    for tag, name, ftype, has_enum in d["fields"]:
        if fname(tag) in seen:
            raise ValueError("two fields map to the Coq name %s" % fname(tag))
        seen.add(fname(tag))
        t += "Definition %s : field := mkField %s %d %d %s. (* %s %s *)\n" % (
            fname(tag), cstr(tag), ncode[name], tcode[ftype], cbool(has_enum),
            name.replace("*)", "* )").replace("(*", "( *"), ftype.replace("*)", "* )").replace("(*", "( *"))
    names = [fname(f[0]) for f in d["fields"]]
    t += "\nDefinition fields : list field :=\n  [%s].\n\n" % ";\n   ".join(
        "; ".join(names[i:i + 16]) for i in range(0, len(names), 16))
    t += "Definition header : list member := %s.\n\n" % coq_members(d["header"])
    rows = []
    for i, (mt, name, ms) in enumerate(d["messages"]):
        if count(ms) > 4000:
            raise ValueError("message %s has %d members: chunking needed" % (name, count(ms)))
        t += "(* %s, msg_type %s, %d members *)\nDefinition m%d : list member := %s.\n\n" % (
            name.replace("*)", "").replace("(*", ""), mt.replace("*)", "").replace("(*", ""), count(ms), i, coq_members(ms))
        rows.append("(%s, m%d)" % (cstr(mt), i))
    t += "Definition messages : list (str * list member) :=\n  [%s].\n\n" % ";\n   ".join(rows)
    t += "Definition schema : schema := mkSchema fields header messages.\n\n"
    if raw is not None:
        t += coq_raw(d, raw)
    t += "End %s.\n\n" % modname
    return t


def coq_child(c, fcode, ccode, out, ind):
    if c[0] == "F":
        out.append("%sRField %d %s" % (ind, fcode(c[1]), cbool(c[2])))
    elif c[0] == "C":
        out.append("%sRComp %d" % (ind, ccode[c[1]]))
    else:
        sub = []
        for x in c[3]:
            coq_child(x, fcode, ccode, sub, ind + " ")
        out.append("%sRGroup %d %s [\n%s]" % (ind, fcode(c[1]), cbool(c[2]), ";\n".join(sub)))


def coq_children(cs, fcode, ccode):
    out = []
    for c in cs:
        coq_child(c, fcode, ccode, out, "  ")
    return "[\n" + ";\n".join(out) + "]" if out else "[]"


def coq_raw(d, raw):
    """The raw declarations (read with ElementTree only) as input of Fix/SchemaParse.parse."""
    fcode, tcode, ccode, mcode = raw_codes(raw)
    parsed = {f[0]: f for f in d["fields"]}
    same_codes = raw["names"] == d["names"] and raw["types"] == d["types"]
    t = "(* ---- raw declarations as xml.etree gives them; component codes: %s *)\n" % ", ".join(
        "%d=%s" % (i, c.replace("*)", "")) for c, i in ccode.items())
    items = []
    for f in raw["fields"]:
        if same_codes and parsed.get(f[0]) == f:
            items.append(fname(f[0]))
        else:
            items.append("(mkField %s %d %d %s)" % (cstr(f[0]), fcode(f[1]), tcode[f[2]], cbool(f[3])))
    t += "Definition raw_fields : list field :=\n  [%s].\n\n" % ";\n   ".join(
        "; ".join(items[i:i + 16]) for i in range(0, len(items), 16))
    g = [str(fcode(n)) for n in raw["groupable"]]
    t += "Definition groupable : list N :=\n  [%s].\n\n" % ";\n   ".join("; ".join(g[i:i + 24]) for i in range(0, len(g), 24))
    t += "Definition raw_header : list rchild := %s.\n\n" % coq_children(raw["header"], fcode, ccode)
    rows = []
    for i, (name, ch) in enumerate(raw["comps"]):
        t += "(* component %s *)\nDefinition rc%d : list rchild := %s.\n\n" % (name.replace("*)", ""), i, coq_children(ch, fcode, ccode))
        rows.append("(%d, rc%d)" % (ccode[name], i))
    t += "Definition raw_comps : list rcomp :=\n  [%s].\n\n" % ";\n   ".join(
        "; ".join(rows[i:i + 8]) for i in range(0, len(rows), 8))
    rows = []
    for i, (name, mt, ch) in enumerate(raw["msgs"]):
        t += "(* message %s *)\nDefinition rm%d : list rchild := %s.\n\n" % (name.replace("*)", ""), i, coq_children(ch, fcode, ccode))
        rows.append("(%d, %s, rm%d)" % (mcode[name], cstr(mt), i))
    t += "Definition raw_msgs : list rmsg :=\n  [%s].\n\n" % ";\n   ".join(rows)
    t += "Definition decls : raw := mkRaw raw_fields groupable raw_header raw_comps raw_msgs.\n\n"
    return t


def generate():
    import xml.etree.ElementTree as ET

    t = "From Coq Require Import NArith List.\nFrom AF Require Import Base.Sx Fix.SchemaModel Fix.SchemaParse.\n"
    t += "Import ListNotations.\nOpen Scope N_scope.\n\n"
    for modname, rel in DICTS:
        _, d = load_plain(rel)
        raw = raw_of_root(ET.parse(os.path.join(core.REPO, rel)).getroot())
        t += coq_module(modname, d, raw)
    return t
