"""C14 - concurrent senders never corrupt the outbound sequence.

Controlled scheduler on the REAL implementation.  One real AsyncFIXConnection (public
constructor, FIXProtocol44, real in-memory Journaler, Codec.current_datetime patched to a
constant) whose fake StreamWriter's drain() parks on a fresh future, and whose awaited hooks
(on_state_change, should_replay, on_message, on_logon) park on futures too.  Tasks are real
asyncio tasks running conn.send_msg(..) loops, conn.send_test_req() and
conn._process_message(<inbound frame>).  One scheduler choice = start a task or resolve the
future a task is parked on, then run the loop until that task parks again or ends
(run-to-next-suspension).  ALL schedules (FIFO and non-FIFO drain wake-up orders) of each
scenario are enumerated; after every prefix the observation

    wire (seq, type, possdup, id, gapfill) in order | per task: outcome of each send call, exception
    swallowed by the reader, where it is parked | journal rows | stored counter | live counter |
    state | role | TestReqID pending | schedule obeys FIFO drain wake-up

is compared with the extracted model (coq/theories/Fix/Sched.v via SchedRun.v).  After every
prefix of every schedule the property oracle (written from the property text, shares nothing with
the model) is evaluated on the implementation's observable behaviour.

ALL private-name access is in class Impl."""
import asyncio
import faulthandler
import json
import multiprocessing as mp
import os
import sys
import time

from vlib.core import sx

SENDER, TARGET, BEGIN = "CLI", "SRV", "FIX.4.4"
TIME = "20230101-10:00:00.000"
SOH = "\x01"
ST_NCE, ST_ACTIVE = 6, 17

META = {
    "level": "proof",
    "tables": [],
    "files": ["asyncfix/connection.py", "asyncfix/session.py", "asyncfix/codec.py", "asyncfix/journaler.py"],
    "rule": "a case is (scenario, schedule prefix): scenario = connection state + pre-history + 2-4 tasks (application senders of 1-3 "
            "messages, the heartbeat probe, the reader handling a TestRequest / a gap / an application message / a Logon on a fresh "
            "acceptor / a ResendRequest over 2-4 journaled rows with and without declined replays); every interleaving of the tasks "
            "over their suspension points (drain, awaited hooks) is enumerated, FIFO and non-FIFO drain wake-up; non-trivial when at "
            "least two tasks have been resumed; distinct by (scenario, prefix); the oracle runs on every case (every prefix of every schedule, FIFO or not)",
    "trusted_base": [
        "asyncio scheduling rule (modelled in Fix/Sched.v, reproduced by the harness scheduler): a coroutine runs without preemption "
        "up to its next await of a pending future; one task resumes at a time; NO assumption on the order in which drain "
        "waiters or awaited application hooks resume (every order is enumerated and covered by the theorems)",
        "the only suspension points inside the outbound path are writer.drain() and the awaited hooks on_state_change / should_replay / "
        "on_message / on_logon (checked on every step: a resumed task must park or finish within one loop iteration)",
        "ConnectionState / ConnectionRole numbers and MsgType characters are written into Fix/Sched.v; compared here through the state "
        "and frame projections",
    ],
    "assumptions": ["inbound bookkeeping (next_num_in, inbound rows) is outside the model", "SQLite INTEGER range"],
}

# ------------------------------------------------------------------------------------------
# scenarios
# ------------------------------------------------------------------------------------------
# msg   = [type char, id, own MsgSeqNum or None, possdup, gapfill(, True: carries 43=N - an ordinary new message for the model
#          (, frame size in bytes: Account(1) is padded so that the encoded frame has exactly that length - frame size has
#           no influence on behaviour in the model))]
# task  = ["send", [msg..]] | ["hb"] | ["in", kind, ...]   kind: "testreq" | "gap" | "app" | "logon" | "resend", b, e, [declined]


def D(i):
    return ["D", i, None, False, False]


def DS(i, size):
    """application message whose encoded frame is exactly `size` bytes long"""
    return ["D", i, None, False, False, False, size]


HB = ["0", 0, None, False, False]
LOGON = ["A", 0, None, False, False]


def scn(name, tasks, pre=(), st=ST_ACTIVE, role=1, treq=False, oracle=True, holes=()):
    """holes: numbers of outbound journal rows deleted after the pre-history (a pruned / damaged journal)."""
    return {"name": name, "st": st, "role": role, "treq": treq, "pre": list(pre), "tasks": tasks, "oracle": oracle,
            "holes": list(holes)}


def scenarios(tier):
    S = []
    S.append(scn("2 senders x 2", [["send", [D(1), D(2)]], ["send", [D(3), D(4)]]]))
    S.append(scn("3 senders 2/1/1", [["send", [D(1), D(2)]], ["send", [D(3)]], ["send", [D(4)]]]))
    S.append(scn("2 senders + heartbeat probe", [["send", [D(1), D(2)]], ["send", [D(3)]], ["hb"]]))
    S.append(scn("sender + probe refused (pending)", [["send", [D(1)]], ["hb"]], treq=True))
    # raw TestRequests from an application task next to the probe: another id / no id is always refused without consuming
    # a number, the registered id goes out only while the probe is pending
    S.append(scn("probe + raw TestRequest with another id", [["hb"], ["send", [["1", 777, None, False, False], D(2)]]]))
    S.append(scn("probe + raw TestRequest without id", [["hb"], ["send", [D(1), ["1", -1, None, False, False]]]]))
    S.append(scn("probe + raw TestRequest with the registered id", [["hb"], ["send", [["1", 0, None, False, False], D(2)]]]))
    S.append(scn("gap (RESENDREQ_AWAITING) + probe", [["in", "gap"], ["hb"]]))
    # frame sizes around typical buffer thresholds, sent concurrently with small frames under back-pressure
    for size in (1024, 4095, 4096, 4097, 8192, 65536):
        S.append(scn("frame of %d bytes + small sender" % size, [["send", [DS(1, size)]], ["send", [D(2)]]]))
    S.append(scn("large and small frames x 2", [["send", [DS(1, 8192), D(2)]], ["send", [D(3), DS(4, 4097)]]]))
    S.append(scn("large frame + heartbeat probe + reader reply", [["send", [DS(1, 5000)]], ["hb"], ["in", "testreq"]]))
    S.append(scn("resend over a large row + sender", [["in", "resend", 1, 0, []], ["send", [DS(9, 4200)]]],
                 pre=[DS(1, 6000), D(2)]))
    S.append(scn("reader TestRequest reply + 2 senders", [["in", "testreq"], ["send", [D(1), D(2)]], ["send", [D(3)]]]))
    S.append(scn("reader gap ResendRequest + 2 senders", [["in", "gap"], ["send", [D(1), D(2)]], ["send", [D(3)]]]))
    S.append(scn("reader on_message + sender", [["in", "app"], ["send", [D(1), D(2)]]]))
    S.append(scn("logon window + 2 senders", [["in", "logon"], ["send", [D(1)]], ["send", [D(2)]]], st=ST_NCE, role=0))
    S.append(scn("logon window + sender x 2", [["in", "logon"], ["send", [D(1), D(2)]]], st=ST_NCE, role=0))
    S.append(scn("initiator first Logon + sender", [["send", [LOGON]], ["send", [D(1)]], ["send", [LOGON]]],
                 st=ST_NCE, role=0))
    # application-sent SequenceReset / PossDup messages keep their own number (D20, C05's domain): model comparison only
    S.append(scn("sender with own-number messages", [["send", [["4", 9, 7, False, False], D(1), ["4", 5, 2, False, True]]],
                                                     ["send", [D(2), ["D", 3, 1, True, False]]]], oracle=False))
    # ResendRequest being serviced
    S.append(scn("resend alone", [["in", "resend", 1, 0, []]], pre=[D(1), D(2), HB, D(4)]))
    S.append(scn("resend alone declined+tail", [["in", "resend", 2, 0, [2]]], pre=[D(1), D(2), D(3), HB]))
    S.append(scn("resend bounded alone", [["in", "resend", 1, 2, []]], pre=[D(1), D(2), D(3)]))
    S.append(scn("resend(0,0) clamped + sender", [["in", "resend", 0, 0, []], ["send", [D(9)]]], pre=[D(1), HB, D(3)]))
    S.append(scn("resend(-3,0) alone", [["in", "resend", -3, 0, []]], pre=[D(1), D(2)]))
    S.append(scn("resend beyond + sender", [["in", "resend", 7, 0, []], ["send", [D(9)]]], pre=[D(1), D(2)]))
    S.append(scn("resend over journal hole + sender", [["in", "resend", 1, 0, []], ["send", [D(9)]]],
                 pre=[D(1), D(2), D(3), D(4)], holes=[2]))
    S.append(scn("resend over holes alone", [["in", "resend", 1, 0, [5]]], pre=[D(1), D(2), HB, D(4), D(5), D(6)], holes=[1, 4]))
    S.append(scn("resend bounded + sender", [["in", "resend", 1, 2, []], ["send", [D(9)]]], pre=[D(1), HB, D(3), D(4)]))
    S.append(scn("resend bounded beyond alone", [["in", "resend", 2, 9, []]], pre=[D(1), D(2), HB]))
    S.append(scn("resend over a row carrying 43=N + sender", [["in", "resend", 1, 0, []], ["send", [D(9)]]],
                 pre=[D(1), ["D", 2, None, False, False, True], D(3)]))
    S.append(scn("resend EndSeqNo 2^64 + sender", [["in", "resend", 2, 2 ** 64, []], ["send", [D(9)]]], pre=[D(1), D(2), HB]))
    S.append(scn("resend + sender", [["in", "resend", 1, 0, []], ["send", [D(9)]]], pre=[D(1), D(2), D(3)]))
    S.append(scn("resend + sender x 2", [["in", "resend", 2, 0, []], ["send", [D(8), D(9)]]], pre=[D(1), D(2), HB]))
    S.append(scn("resend + heartbeat probe", [["in", "resend", 1, 0, []], ["hb"]], pre=[D(1), D(2)]))
    S.append(scn("resend declined + sender", [["in", "resend", 1, 0, [2]], ["send", [D(9)]]], pre=[D(1), D(2), D(3)]))
    S.append(scn("3 senders x 2", [["send", [D(1), D(2)]], ["send", [D(3), D(4)]], ["send", [D(5), D(6)]]]))
    S.append(scn("resend + 2 senders", [["in", "resend", 1, 0, []], ["send", [D(8)]], ["send", [D(9)]]], pre=[D(1), D(2)]))
    if tier == "thorough":
        S.append(scn("2 senders x 3", [["send", [D(1), D(2), D(3)]], ["send", [D(4), D(5), D(6)]]]))
        S.append(scn("4 senders", [["send", [D(1)]], ["send", [D(2)]], ["send", [D(3)]], ["send", [D(4), D(5)]]]))
        S.append(scn("logon window + 2 senders x 2", [["in", "logon"], ["send", [D(1), D(2)]], ["send", [D(3), D(4)]]], st=ST_NCE, role=0))
        S.append(scn("gap + testreq-probe + sender", [["in", "gap"], ["hb"], ["send", [D(1), D(2)]]]))
        S.append(scn("resend 4 rows + sender x 2", [["in", "resend", 1, 0, [3]], ["send", [D(8), D(9)]]], pre=[D(1), HB, D(3), D(4)]))
        S.append(scn("resend + probe + sender", [["in", "resend", 1, 0, []], ["hb"], ["send", [D(9)]]], pre=[D(1), D(2)]))
    return S


# ------------------------------------------------------------------------------------------
# model requests
# ------------------------------------------------------------------------------------------

def sx_msg(m):
    return "[%d,%d,%s,%d,%d]" % (ord(m[0]), m[1], "[]" if m[2] is None else "[%d]" % m[2], 1 if m[3] else 0, 1 if m[4] else 0)


def model_task(t):
    k = t[0]
    if k == "send":
        return "[0,[%s]]" % ",".join("[0,%s]" % sx_msg(m) for m in t[1])
    if k == "hb":
        return "[0,[[2]]]"
    kind = t[1]
    if kind == "testreq":
        code = "[0,%s]" % sx_msg(HB)
    elif kind == "gap":
        code = "[0,%s],[3,12,0]" % sx_msg(["2", 0, None, False, False])
    elif kind == "app":
        code = "[4]"
    elif kind == "logon":
        code = "[3,8,0],[5,2],[0,%s],[3,17,0],[4]" % sx_msg(LOGON)
    elif kind == "resend":
        code = "[3,10,1],[6,%d,%d,[%s]],[9]" % (t[2], t[3], ",".join(str(d) for d in t[4]))
    else:
        raise ValueError(t)
    return "[1,[%s]]" % code


def model_request(s, sched):
    return "[[%d,%d,%d,[%s],[%s]],[%s],[%s]]" % (
        s["st"], s["role"], 1 if s["treq"] else 0, ",".join(sx_msg(m) for m in s["pre"]),
        ",".join(str(h) for h in s.get("holes", [])),
        ",".join(model_task(t) for t in s["tasks"]), ",".join(str(c) for c in sched))


# ------------------------------------------------------------------------------------------
# implementation driver
# ------------------------------------------------------------------------------------------

def build_frame(mtype, fields):
    """A peer frame, independent of the library's encoder."""
    body = "".join("%s=%s%s" % (t, v, SOH) for t, v in fields)
    head35 = "35=%s%s" % (mtype, SOH)
    txt = "8=%s%s9=%d%s%s%s" % (BEGIN, SOH, len(head35) + len(body), SOH, head35, body)
    return (txt + "10=%03d%s" % (sum(ord(c) for c in txt) % 256, SOH)).encode("latin-1")


def inbound_frame(t):
    hdr = lambda n: [("49", TARGET), ("56", SENDER), ("34", str(n)), ("52", TIME)]  # noqa: E731
    kind = t[1]
    if kind == "testreq":
        return build_frame("1", hdr(1) + [("112", "7")])
    if kind == "gap":
        return build_frame("D", hdr(3) + [("58", "x")])
    if kind == "app":
        return build_frame("D", hdr(1) + [("58", "x")])
    if kind == "logon":
        return build_frame("A", hdr(1) + [("98", "0"), ("108", "30")])
    if kind == "resend":
        return build_frame("2", hdr(1) + [("7", str(t[2])), ("16", str(t[3]))])
    raise ValueError(t)


def exc_code(e):
    from asyncfix import errors
    if isinstance(e, errors.FIXConnectionError):
        return 4
    if isinstance(e, errors.DuplicateSeqNoError):
        return 5
    if isinstance(e, errors.EncodingError):
        return 6
    if isinstance(e, errors.DuplicatedTagError):
        return 10
    if isinstance(e, AssertionError):
        return 3
    return [99, type(e).__name__]


class Stuck(Exception):
    pass


class Impl:
    """One connection under the controlled scheduler."""

    _patched = False

    @classmethod
    def patch(cls):
        if not cls._patched:
            from asyncfix.codec import Codec
            Codec.current_datetime = staticmethod(lambda: TIME)
            cls._patched = True

    def __init__(self, s):
        from asyncfix import FIXMessage, Journaler
        from asyncfix.codec import Codec
        from asyncfix.connection import AsyncFIXConnection, ConnectionRole, ConnectionState
        from asyncfix.message import MessageDirection
        from asyncfix.protocol import FIXProtocol44
        Impl.patch()
        self.FIXMessage = FIXMessage
        self.s = s
        self.auto = True            # pre-history: nothing parks
        self.waiting = {}           # task index -> (kind, future, ticket)
        self.ticket = 0
        self.idx_of = {}            # asyncio task -> index
        self.tasks = {}             # index -> asyncio task
        self.out = {i: [] for i in range(len(s["tasks"]))}
        self.exc = {}
        self.wire = []
        self.events = []            # ("S"/"E", idx, is_new) send start / end ; ("SET", idx) ; ("P", bytes, ok)
        self.fifo = True
        self.resumed = set()
        self.declined = set()
        for t in s["tasks"]:
            if t[0] == "in" and t[1] == "resend":
                self.declined = set(t[4])
        me = self

        class Log:
            def debug(self, *a, **k):
                pass
            info = warning = error = critical = debug

            def exception(self, *a, **k):
                i = me.current()
                if i is not None:
                    me.exc[i] = exc_code(sys.exc_info()[1])

        class Writer:
            def write(self, data):
                me.wire.append(bytes(data))

            async def drain(self):
                await me.park("drain")

            def close(self):
                pass

            async def wait_closed(self):
                return None

        class RecJournaler(Journaler):
            def set_seq_num(self, session, next_num_out=None, next_num_in=None):
                if next_num_out is not None and not me.auto:
                    me.events.append(("SET", me.current()))
                return super().set_seq_num(session, next_num_out=next_num_out, next_num_in=next_num_in)

            def persist_msg(self, msg, session, direction):
                if direction != MessageDirection.OUTBOUND:
                    return super().persist_msg(msg, session, direction)
                try:
                    super().persist_msg(msg, session, direction)
                except Exception:
                    me.events.append(("P", bytes(msg), False))
                    raise
                me.events.append(("P", bytes(msg), True))

        class Conn(AsyncFIXConnection):
            async def on_message(self, msg):
                await me.park("hook")

            async def on_state_change(self, connection_state):
                await me.park("hook")

            async def on_logon(self, is_healthy):
                await me.park("hook")

            async def should_replay(self, historical_replay_msg):
                await me.park("hook")
                return int(historical_replay_msg[34]) not in me.declined

            async def send_msg(self, msg):
                i = me.current()
                new = str(msg.msg_type) != "4" and msg.get(43, "N") != "Y"
                me.events.append(("S", i, new))
                try:
                    await super().send_msg(msg)
                except Exception as e:
                    if i in me.readers:
                        me.out[i].append(exc_code(e))
                    raise
                finally:
                    me.events.append(("E", i, new))
                if i in me.readers:
                    me.out[i].append(0)

        self.readers = {i for i, t in enumerate(s["tasks"]) if t[0] == "in"}
        self.codec = Codec(FIXProtocol44())
        self.journal = RecJournaler()
        self.conn = Conn(FIXProtocol44(), SENDER, TARGET, self.journal, "localhost", 0, heartbeat_period=30, logger=Log())
        c = self.conn
        c._socket_writer = Writer()
        c._socket_reader = object()
        c._connection_state = ConnectionState(ST_ACTIVE)
        c._connection_role = ConnectionRole(s["role"])
        self._State = ConnectionState

    # ---- scheduler ----------------------------------------------------------------------
    def current(self):
        try:
            return self.idx_of.get(asyncio.current_task())
        except RuntimeError:
            return None

    async def park(self, kind):
        if self.auto:
            return
        i = self.current()
        if i is None:
            raise RuntimeError("suspension outside a scheduled task")
        fut = asyncio.get_running_loop().create_future()
        tk = None
        if kind == "drain":
            tk = self.ticket
            self.ticket += 1
        self.waiting[i] = (kind, fut, tk)
        await fut

    def mk(self, m):
        fm = self.FIXMessage(m[0])
        if m[0] == "4":
            fm.set(36, str(m[1]))
        elif m[0] == "1":
            # a raw TestRequest: id 0 = carries the TestReqID the pending probe registered, > 0 = another id, < 0 = none
            if m[1] == 0:
                fm.set(112, str(self.conn._test_req_id))
            elif m[1] > 0:
                fm.set(112, str(m[1]))
        elif m[1]:
            fm.set(58, str(m[1]))
        if m[2] is not None:
            fm.set(34, str(m[2]))
        if m[3]:
            fm.set(43, "Y")
        elif len(m) > 5 and m[5]:
            fm.set(43, "N")
        if m[4]:
            fm.set(123, "Y")
        if len(m) > 6 and m[6]:
            fm.set(1, "x" * self.pad_for(m, m[6]))
        return fm

    def pad_for(self, m, size):
        """length of the Account(1) value that makes the frame of new message m exactly `size` bytes (mk is called in the
        same synchronous stretch as the allocation, so next_num_out is the number the frame will carry)"""
        seq = m[2] if m[2] is not None else self.conn._session.next_num_out
        fields = ["35=%s" % m[0], "49=%s" % SENDER, "56=%s" % TARGET, "34=%d" % seq, "52=%s" % TIME]
        if m[1]:
            fields.append("58=%d" % m[1])
        base = sum(len(f) + 1 for f in fields) + len("1=") + 1      # body without the padding characters
        fixed = len("8=%s" % BEGIN) + 1 + len("10=000") + 1
        for pad in range(max(1, size - base - fixed - 8), size):
            if fixed + len("9=%d" % (base + pad)) + 1 + base + pad == size:
                return pad
        raise ValueError("no padding gives a frame of %d bytes" % size)

    async def prehistory(self):
        for m in self.s["pre"]:
            await self.conn.send_msg(self.mk(m))
        for h in self.s.get("holes", []):
            self.journal.cursor.execute("DELETE FROM message WHERE seqNo = ? AND direction = 1", (h,))
        self.journal.conn.commit()
        self.conn._connection_state = self._State(self.s["st"])
        self.conn._test_req_id = 12345 if self.s["treq"] else None
        self.auto = False
        self.events = []

    async def body(self, i):
        t = self.s["tasks"][i]
        c = self.conn
        if t[0] == "send":
            for m in t[1]:
                try:
                    await c.send_msg(self.mk(m))
                    self.out[i].append(0)
                except Exception as e:  # noqa: BLE001 - the class of what the caller sees is the observation
                    self.out[i].append(exc_code(e))
        elif t[0] == "hb":
            try:
                await c.send_test_req()
                self.out[i].append(0)
            except Exception as e:  # noqa: BLE001
                self.out[i].append(exc_code(e))
        else:
            m, _, raw = self.codec.decode(inbound_frame(t))
            await c._process_message(m, raw)

    def runnable(self):
        return [i for i in range(len(self.s["tasks"])) if i not in self.tasks or i in self.waiting]

    async def step(self, i):
        loop = asyncio.get_running_loop()
        if i not in self.tasks:
            t = loop.create_task(self.body(i))
            self.idx_of[t] = i
            self.tasks[i] = t
        elif i in self.waiting:
            kind, fut, tk = self.waiting.pop(i)
            if kind == "drain" and any(k == "drain" and tk2 < tk for (k, _, tk2) in self.waiting.values()):
                self.fifo = False
            fut.set_result(None)
        else:
            raise Stuck("choice %d is not runnable" % i)
        self.resumed.add(i)
        # run-to-next-suspension: the resumed task must park again or finish within ONE loop iteration
        await asyncio.sleep(0)
        if not (i in self.waiting or self.tasks[i].done()):
            for _ in range(50):
                await asyncio.sleep(0)
                if i in self.waiting or self.tasks[i].done():
                    break
            raise Stuck("task %d suspended at a point the scheduler does not control" % i)
        if self.tasks[i].done() and self.tasks[i].exception() is not None:
            raise Stuck("task %d died: %r" % (i, self.tasks[i].exception()))

    async def finish(self):
        pend = [t for t in self.tasks.values() if not t.done()]
        for t in pend:
            t.cancel()
        if pend:
            await asyncio.gather(*pend, return_exceptions=True)
        # close the journal here: Journaler.__del__ run later by the collector from another thread would complain
        try:
            self.journal.cursor.close()
            self.journal.conn.close()
        except Exception:  # noqa: BLE001
            pass

        class _Closed:
            def close(self):
                pass
        self.journal.cursor = _Closed()
        self.journal.conn = _Closed()

    # ---- observation ---------------------------------------------------------------------
    _fp_cache = {}

    def fproj(self, data):
        """frame bytes -> [MsgSeqNum, ord(MsgType), PossDupFlag, id, GapFillFlag] through the real decoder (memoised by bytes)."""
        data = bytes(data)
        hit = Impl._fp_cache.get(data)
        if hit is None:
            m, _, _ = self.codec.decode(data, silent=False)
            ty = str(m.msg_type)
            ident = int(m[36]) if ty == "4" else int(m.get(58, "0"))
            hit = Impl._fp_cache[data] = (int(m[34]), ord(ty), 1 if m.get(43, "N") == "Y" else 0, ident,
                                          1 if m.get(123, "N") == "Y" else 0)
        return list(hit)

    def observe(self):
        c = self.conn
        s = c._session
        stored = self.journal.sessions()[(s.target_comp_id, s.sender_comp_id)]
        tasks = []
        for i in range(len(self.s["tasks"])):
            if i not in self.tasks:
                w = 0
            elif i in self.waiting:
                w = 2 if self.waiting[i][0] == "drain" else 1
            else:
                w = 3
            tasks.append([list(self.out[i]), [self.exc[i]] if i in self.exc else [], w])
        rows = [[r[0], self.fproj(r[1])] for r in self.journal.get_all_msgs() if r[2] == 1]
        rows.sort(key=lambda r: r[0])
        return [[self.fproj(d) for d in self.wire], tasks, rows, stored.next_num_out - 1, s.next_num_out,
                int(c._connection_state), int(c._connection_role.value), 1 if c._test_req_id is not None else 0,
                1 if self.fifo else 0, 1]


def _snapshot(im, s, err=None):
    obs = im.observe()
    extra = {"runnable": im.runnable(), "events": [list(e[:1]) + [x.hex() if isinstance(x, bytes) else x for x in e[1:]] for e in im.events],
             "wire_raw": [d.hex() for d in im.wire], "n_pre": len(s["pre"]), "resumed": len(im.resumed), "stuck": err}
    return obs, extra


async def _run_node(s, sched):
    im = Impl(s)
    await im.prehistory()
    err = None
    try:
        for c in sched:
            await im.step(c)
    except Stuck as e:
        err = str(e)
    obs, extra = _snapshot(im, s, err)
    await im.finish()
    return obs, extra


async def _run_path(s, prefix, maxdepth, seen):
    """Run `prefix` on a fresh connection, then keep resuming the first runnable task to the end.
    Returns the observations of every prefix on the way not seen before, and the untried branches."""
    im = Impl(s)
    await im.prehistory()
    sched, nodes, alts = [], [], []
    try:
        for c in prefix:
            await im.step(c)
            sched.append(c)
        while True:
            if tuple(sched) not in seen:
                seen.add(tuple(sched))
                obs, extra = _snapshot(im, s)
                nodes.append((list(sched), obs, extra))
            r = im.runnable()
            if not r or len(sched) >= maxdepth:
                break
            for c in r[1:]:
                alts.append(sched + [c])
            sched.append(r[0])
            await im.step(r[0])
    except Stuck as e:
        obs, extra = _snapshot(im, s, str(e))
        nodes.append((list(sched), obs, extra))
    await im.finish()
    return nodes, alts


_loop = None


def _run(coro, timeout=20):
    global _loop
    if _loop is None:
        _loop = asyncio.new_event_loop()
    return _loop.run_until_complete(asyncio.wait_for(coro, timeout))


def run_node(s, sched, timeout=20):
    return _run(_run_node(s, sched), timeout)


def explore(s, maxdepth):
    """All schedule prefixes of scenario s up to maxdepth choices: [(sched, obs, extra)] (every run starts from a
    fresh connection; the observation of a prefix is taken the first time a run passes through it)."""
    faulthandler.dump_traceback_later(400, exit=True)
    out, seen = [], set()
    stack = [[]]
    while stack:
        nodes, alts = _run(_run_path(s, stack.pop(), maxdepth, seen))
        out.extend(nodes)
        stack.extend(reversed(alts))
    faulthandler.cancel_dump_traceback_later()
    return out


def _explore_job(args):
    return explore(*args)


# ------------------------------------------------------------------------------------------
# property oracle (from the property text; decided on what the implementation did)
# ------------------------------------------------------------------------------------------

def oracle(s, obs, extra):
    """Breaches of C14 on the observation after any schedule prefix."""
    wire, tasks, rows, sout = obs[0], obs[1], obs[2], obs[3]
    bad = []
    is_new = lambda f: not f[2] and f[1] != ord("4")  # noqa: E731
    new = [f for f in wire if is_new(f)]
    # new messages: distinct, strictly increasing numbers in wire order
    for a, b in zip(new, new[1:]):
        if b[0] <= a[0]:
            bad.append("new message id=%d goes out with MsgSeqNum %d after a new message numbered %d" % (b[3], b[0], a[0]))
            break
    # only retransmissions reuse a number - their own
    for i, f in enumerate(wire):
        before = [g for g in wire[:i] if is_new(g)]
        if f[2]:
            orig = [g for g in before if g[0] == f[0]]
            if len(orig) != 1 or (orig[0][1], orig[0][3]) != (f[1], f[3]):
                bad.append("PossDup frame %r does not retransmit the one message sent under its number" % (f,))
                break
        elif f[1] == ord("4"):
            hi = max([g[0] for g in before], default=0)
            if not (f[4] and f[0] < f[3] <= hi + 1):
                bad.append("SequenceReset %d->%d is not a gap fill over numbers already used (highest %d)" % (f[0], f[3], hi))
                break
    # a gap fill tells the peer to skip numbers: it may cover session-level messages and numbers missing in the journal,
    # never an application message that went out as a new message and that should_replay did not decline (the peer would
    # lose it for good - e.g. a message sent by another task while the reply was under way)
    sess_types = {ord(c) for c in "01245A"}
    gf_holes = set(s.get("holes", []))
    for t in s.get("tasks", []):
        if t and t[0] == "in" and t[1] == "resend" and len(t) > 4:
            gf_holes |= set(t[4] or [])              # numbers the scenario's should_replay declines
    for f in wire:
        if not f[2] and f[1] == ord("4") and f[4]:
            lost = [g for g in new if f[0] <= g[0] < f[3] and g[1] not in sess_types and g[0] not in gf_holes]
            if lost:
                bad.append("gap fill %d->%d skips the application message sent under number %d" % (f[0], f[3], lost[0][0]))
                break
    # every frame is journaled under its number, without a duplicate error: each new message is stored exactly once
    # when it is sent, nothing else is stored, and at the end the row under every number that went out (new message or
    # its retransmission) is that new message
    n_pre = extra["n_pre"]
    persisted = sorted(bytes.fromhex(e[1]) for e in extra["events"] if e[0] == "P" and e[2])
    sent_new = sorted(bytes.fromhex(d) for d, f in zip(extra["wire_raw"][n_pre:], wire[n_pre:]) if is_new(f))
    done = all(t[2] == 3 for t in tasks)
    missing = list(sent_new)
    for x in persisted:
        if x in missing:
            missing.remove(x)
    if missing or (done and persisted != sent_new):
        # (a frame that is journaled but not written yet while its sender is suspended is not a frame on the wire:
        #  equality is required once all tasks have finished, inclusion at every moment)
        bad.append("%d new frame(s) written, %d frame(s) journaled, %d written frame(s) without a journal row" % (
            len(sent_new), len(persisted), len(missing)))
    want = {}
    for f in new:
        want.setdefault(f[0], f)
    holes = set(s.get("holes", []))
    expect = [[k, want[k]] for k in sorted(want) if k not in holes]
    if (rows != expect) if done else any(r not in rows for r in expect):
        bad.append("journal rows %r differ from the messages sent %r" % (rows, sorted(want.items())))
    for f in wire:
        if f[2] and (f[0] not in want or f[0] in holes):
            bad.append("retransmission %r has no journal row" % (f,))
            break
    if any(e[0] == "SET" for e in extra["events"]):
        bad.append("the outbound journal was rewound (set_seq_num) while tasks were sending")
    if any(e[0] == "P" and not e[2] for e in extra["events"]) or any(5 in t[0] or t[1] == [5] for t in tasks):
        bad.append("DuplicateSeqNoError")
    # stored counter = highest number sent
    if new and ((sout != max(f[0] for f in new)) if done else (sout < max(f[0] for f in new))):
        bad.append("stored outbound counter %d, highest number sent %d" % (sout, max(f[0] for f in new)))
    return bad


# ------------------------------------------------------------------------------------------
# run / search / replay
# ------------------------------------------------------------------------------------------

def depth_bound(s, tier):
    return 40


def explore_all(S, tier):
    jobs = [(s, depth_bound(s, tier)) for s in S]
    with mp.get_context("fork").Pool(min(16, len(jobs))) as pool:
        res = pool.map_async(_explore_job, jobs, chunksize=1)
        return res.get(timeout=600 if tier == "thorough" else 200)


def judge(ctx, s, sched, obs, extra):
    done = all(t[2] == 3 for t in obs[1])
    if extra["stuck"]:
        ctx.disagree({"scn": s, "sched": sched}, extra["stuck"], None, "suspension-points")
    # since the journal write is inside the atomic segment of send_msg the property holds after EVERY prefix of EVERY
    # schedule (FIFO drain wake-up or not): the oracle is evaluated on every case
    if s.get("oracle", True):
        for what in oracle(s, obs, extra)[:1]:
            ctx.fail({"scn": s, "sched": sched}, what + " | wire " + json.dumps(obs[0]), None)
    if done:
        ctx.count("complete")
        if not obs[8]:
            ctx.count("complete-nonfifo")
        if any(t[0] == "in" and t[1] == "resend" for t in s["tasks"]) and len(s["tasks"]) > 1:
            ctx.count("complete-with-resend-service")


def witnesses():
    """The example schedules of Props/C14.v, re-run on the implementation: the three schedules that broke the
    property before the repair of D12 (now C14_resend_window_example / .._caller_example / C14_heartbeat_inflight_example)
    and the LIFO wake-up schedule of C14_lifo_counter_example."""
    rw = scn("example resend window", [["in", "resend", 1, 0, []], ["send", [D(9)]]], pre=[D(1), D(2), D(3)])
    hb = scn("example heartbeat in flight", [["in", "resend", 1, 0, []], ["hb"]], pre=[D(1), D(2)])
    lifo = scn("witness LIFO wake-up", [["send", [D(1)]], ["send", [D(2)]]])
    seqs = lambda o: [(f[0], f[2], f[3]) for f in o[0]]  # noqa: E731
    return [
        ("C14_resend_window_example", rw, [0, 0, 1, 0, 1, 0, 0, 0, 0, 0, 0],
         lambda o: seqs(o) == [(1, 0, 1), (2, 0, 2), (3, 0, 3), (4, 0, 9), (1, 1, 1), (2, 1, 2), (3, 1, 3)]
         and o[3] == 4 and o[4] == 5 and o[5] == 17 and o[8] == 1),
        ("C14_resend_window_caller_example", rw, [0, 0, 0, 0, 1, 1, 0, 0, 0, 0, 0],
         lambda o: seqs(o) == [(1, 0, 1), (2, 0, 2), (3, 0, 3), (1, 1, 1), (4, 0, 9), (2, 1, 2), (3, 1, 3)]
         and o[1][1][0] == [0] and o[3] == 4 and o[4] == 5 and o[8] == 1),
        ("C14_heartbeat_inflight_example", hb, [1, 0, 0, 0, 1, 0, 0, 0, 0, 0],
         lambda o: [f[:3] for f in o[0]] == [[1, 68, 0], [2, 68, 0], [3, 49, 0], [1, 68, 1], [2, 68, 1], [3, 52, 0]]
         and o[0][-1][3:] == [4, 1] and o[1][0][1] == [] and o[3] == 3 and o[4] == 4 and o[5] == 17 and o[8] == 1),
        ("C14_resend_unservable_example", scn("example unservable request", [["in", "resend", 7, 0, []], ["send", [D(9)]]], pre=[D(1), D(2)]),
         [0, 0, 1, 0, 1],
         lambda o: o[1][0][1] == [3] and seqs(o) == [(1, 0, 1), (2, 0, 2), (3, 0, 9)] and o[5] == 17 and o[3] == 3 and o[4] == 4),
        ("C14_lifo_counter_example", lifo, [0, 1, 1, 0],
         lambda o: [f[0] for f in o[0]] == [1, 2] and o[3] == 2 and o[4] == 3 and o[8] == 0),
    ]


def run_witnesses(ctx):
    conf = {}
    for name, s, sched, holds in witnesses():
        obs, extra = run_node(s, sched)
        ok = all(t[2] == 3 for t in obs[1]) and bool(holds(obs))
        conf[name] = ok
        if ctx.model:
            mo = ctx.model.call(model_request(s, sched))
            if mo != obs:
                ctx.disagree({"scn": s, "sched": sched}, obs, mo, "witness-observation")
        if not ok:
            ctx.notes.append("note: example schedule of %s does not reproduce on the implementation: %r" % (name, obs))
        ctx.case((s["name"], tuple(sched)), True)
        ctx.traces += 1
        judge(ctx, s, sched, obs, extra)
    ctx.extra["example_schedules_confirmed_on_implementation"] = conf


def run(ctx):
    t0 = time.time()
    run_witnesses(ctx)
    S = scenarios(ctx.tier)
    results = explore_all(S, ctx.tier)
    reqs, flat = [], []
    for s, nodes in zip(S, results):
        for sched, obs, extra in nodes:
            flat.append((s, sched, obs, extra))
            reqs.append(model_request(s, sched))
    model_out = [None] * len(flat)
    if ctx.model:
        model_out = ctx.model.batch(reqs)
    for (s, sched, obs, extra), mo in zip(flat, model_out):
        ctx.case((s["name"], tuple(sched)), extra["resumed"] >= 2,
                 sample={"scenario": s["name"], "sched": sched, "obs": obs} if (len(sched) == 6 and len(ctx.samples) < 3) else None)
        ctx.count("scn:" + s["name"])
        for t in s["tasks"]:
            if t[0] == "send":
                for m in t[1]:
                    if len(m) > 6 and m[6]:
                        ctx.count("frame-bytes:%d" % m[6])
        ctx.traces += 1
        if mo is not None and mo != obs and not extra["stuck"]:
            ctx.disagree({"scn": s, "sched": sched}, obs, mo, "schedule-observation")
        judge(ctx, s, sched, obs, extra)
    ctx.extra["explore_s"] = round(time.time() - t0, 1)


def search(ctx, cases):
    for c in cases:
        if c and "scn" in c:
            obs, extra = run_node(c["scn"], c["sched"])
            judge(ctx, c["scn"], c["sched"], obs, extra)
            if ctx.failures:
                return
    S = scenarios(ctx.tier)
    for s, nodes in zip(S, explore_all(S, ctx.tier)):
        for sched, obs, extra in nodes:
            judge(ctx, s, sched, obs, extra)
        if ctx.failures:
            return


def replay(path):
    rec = json.load(open(path))
    case = rec.get("input")
    if not case:
        print("replay: no concrete input; broken:", rec.get("broken"))
        return 1
    obs, extra = run_node(case["scn"], case["sched"])
    print("scenario:", case["scn"]["name"], "schedule:", case["sched"])
    print("wire (seq, type, possdup, id, gapfill):", obs[0])
    print("tasks (send outcomes, swallowed exception, parked):", obs[1])
    print("journal rows:", obs[2], "stored counter:", obs[3], "next_num_out:", obs[4], "state:", obs[5])
    bad = oracle(case["scn"], obs, extra) if all(t[2] == 3 for t in obs[1]) else []
    for b in bad:
        print("BREACH:", b)
    return 1 if (bad or extra["stuck"]) else 0
