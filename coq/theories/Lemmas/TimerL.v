(* Proofs about the watchdog model Fix/Timer.v (C12). *)
From Coq Require Import ZArith NArith List Bool Lia.
From AF Require Import Base.Sx Py.Str Fix.Timer.
From AFGen Require Import GenTimer.
Import ListNotations.
Open Scope Z_scope.

(* ------------------------------------------------------------------ regenerated constants *)
(* These equalities are re-checked against the regenerated GenTimer on every run: an edit of a
   threshold, of the sleep period or of the state numbering breaks them (and what follows). *)
Lemma thr_probe_eq : forall hb, thr thr_probe hb = (hb - 1) * 1000.
Proof. intro; unfold thr, thr_probe; cbn [fst snd]; lia. Qed.
Lemma thr_dead_eq : forall hb, thr thr_dead hb = 2 * hb * 1000.
Proof. intro; unfold thr, thr_dead; cbn [fst snd]; lia. Qed.
Lemma thr_treq_eq : forall hb, thr thr_treq hb = 2 * hb * 1000.
Proof. intro; unfold thr, thr_treq; cbn [fst snd]; lia. Qed.
Lemma tick_ms_eq : tick_ms = 1000. Proof. reflexivity. Qed.
Lemma st_order : ST_DISCONNECTED_BROKEN_CONN < ST_NETWORK_CONN_ESTABLISHED <= ST_ACTIVE.
Proof. unfold ST_DISCONNECTED_BROKEN_CONN, ST_NETWORK_CONN_ESTABLISHED, ST_ACTIVE; lia. Qed.

(* ------------------------------------------------------------------ vocabulary *)
Definition live (s : st) : Prop := s_conn s = true /\ s_state s = ST_ACTIVE.
Definition dead_st (hb : Z) : st := mkSt ST_DISCONNECTED_BROKEN_CONN hb 0 None false.

Lemma div1000 : forall t, 0 <= t - t / 1000 * 1000 < 1000.
Proof. intro t. pose proof (Z.div_mod t 1000). pose proof (Z.mod_pos_bound t 1000). lia. Qed.
Lemma div1000_pos : forall t, 1000 <= t -> 1 <= t / 1000.
Proof. intros t H. pose proof (div1000 t). lia. Qed.

Ltac bool_lia :=
  repeat match goal with
         | H : (_ <? _) = true |- _ => apply Z.ltb_lt in H
         | H : (_ <? _) = false |- _ => apply Z.ltb_ge in H
         | H : (_ <=? _) = true |- _ => apply Z.leb_le in H
         | H : (_ <=? _) = false |- _ => apply Z.leb_gt in H
         | H : (_ =? _) = true |- _ => apply Z.eqb_eq in H
         | H : (_ =? _) = false |- _ => apply Z.eqb_neq in H
         end.

(* closed form of one watchdog iteration on a connected ACTIVE session *)
Definition tick_spec (now : Z) (s : st) : st * list out :=
  let hb := s_hb s in
  let fire := (hb - 1) * 1000 <? now - s_mlt s in
  match s_id s with
  | None =>
      if fire then
        let n := now / 1000 in
        if negb (n =? 0) && (2 * hb * 1000 <? now - n * 1000)
        then (dead_st hb, [testreq_frame n; ODisconnect])
        else (mkSt ST_ACTIVE hb now (Some n) true, [testreq_frame n])
      else (s, [])
  | Some n =>
      if 2 * hb * 1000 <? now - n * 1000 then (dead_st hb, [ODisconnect])
      else ((if fire then set_mlt s now else s), [])
  end.

Lemma tick_live : forall now s, live s -> 0 <= s_hb s -> s_id s <> Some 0 -> tick now s = tick_spec now s.
Proof.
  intros now [stt hb mlt id conn] [Hc Hs] Hhb Hid. cbn in Hc, Hs, Hhb, Hid. subst conn stt.
  unfold tick, tick_spec. cbn [s_conn s_state s_hb s_mlt s_id negb].
  rewrite thr_probe_eq, Z.eqb_refl. cbn [andb].
  destruct id as [n|].
  - assert (Hn : n <> 0) by congruence.
    cbn [truthy]. apply Z.eqb_neq in Hn. rewrite Hn. cbn [negb].
    destruct ((hb - 1) * 1000 <? now - mlt) eqn:F.
    + cbn [set_mlt s_state s_hb s_mlt s_id s_conn]. rewrite thr_dead_eq, Z.sub_diag.
      replace (2 * hb * 1000 <? 0) with false by (symmetry; apply Z.ltb_ge; lia).
      rewrite andb_false_r. cbn [s_id s_hb]. rewrite thr_treq_eq, Hn. cbn [negb andb].
      destruct (2 * hb * 1000 <? now - n * 1000) eqn:T; reflexivity.
    + cbn [s_mlt s_hb s_id]. rewrite thr_dead_eq.
      replace (2 * hb * 1000 <? now - mlt) with false by (symmetry; apply Z.ltb_ge; bool_lia; lia).
      rewrite andb_false_r. cbn [s_id s_hb]. rewrite thr_treq_eq, Hn. cbn [negb andb].
      destruct (2 * hb * 1000 <? now - n * 1000) eqn:T; reflexivity.
  - cbn [truthy].
    destruct ((hb - 1) * 1000 <? now - mlt) eqn:F.
    + cbn [set_mlt set_id s_state s_hb s_mlt s_id s_conn]. rewrite thr_dead_eq, Z.sub_diag.
      replace (2 * hb * 1000 <? 0) with false by (symmetry; apply Z.ltb_ge; lia).
      rewrite andb_false_r. cbn [s_id s_hb]. rewrite thr_treq_eq.
      destruct (negb (now / 1000 =? 0) && (2 * hb * 1000 <? now - now / 1000 * 1000)) eqn:T; reflexivity.
    + cbn [s_mlt s_hb s_id]. rewrite thr_dead_eq.
      replace (2 * hb * 1000 <? now - mlt) with false by (symmetry; apply Z.ltb_ge; bool_lia; lia).
      rewrite andb_false_r. reflexivity.
Qed.
