(* Extraction of the codec model for C10.  ExtrOcamlBasic only; numbers stay Coq datatypes. *)
From Coq Require Extraction.
From Coq Require Import ExtrOcamlBasic.
From AF Require Import Fix.CodecRun.
Extraction Language OCaml.
Extraction "../ocaml/build/C10/model.ml" entry.
