(* Sx front end of the container model: a sequence of operations over a small pool of container
   variables -> per operation [outcome, str(variable) afterwards]. *)
From Coq Require Import ZArith NArith List Bool.
From AF Require Import Base.Sx Py.Str Fix.Container.
Import ListNotations.
Open Scope Z_scope.

(* the methods that can be called on a nested item *)
Inductive lop :=
| LSet (t : tag) (v : setval) (replace : bool)
| LDel (t : tag)
| LAddGroup (t : tag) (it : ditem) (idx : Z)
| LSetGroup (t : tag) (l : list ditem)
| LSetMsgType (s : str)
| LGet (t : tag) (d : dflt).

Inductive op :=
| ONew (i : nat) (m : option str) (d : list (tag * dval))      (* v_i = FIXContainer(d) / FIXMessage(m, d) *)
| OSet (i : nat) (t : tag) (v : setval) (replace : bool)
| OGet (i : nat) (t : tag) (d : dflt)
| ODel (i : nat) (t : tag)
| OContains (i : nat) (t : tag)
| OIsGroup (i : nat) (t : tag)
| OAddGroup (i : nat) (t : tag) (it : ditem) (idx : Z)
| OSetGroup (i : nat) (t : tag) (l : list ditem)
| OGroupList (i : nat) (t : tag)
| OGroupByTag (i : nat) (t gt : tag) (gv : str) (dst : option nat)   (* dst: keep a copy of the item *)
| OGroupByIndex (i : nat) (t : tag) (idx : Z) (dst : option nat)
| OQuery (i : nat) (ts : list tag)
| OEq (i j : nat)
| OEqDict (i : nat) (other : list (tag * str))
| OStr (i : nat)
| ORepr (i : nat)
| OSetMsgType (i : nat) (s : str)
| OItems (i : nat)
| OAt (i : nat) (path : list pstep) (o : lop).   (* a method called on an item reached through the accessors *)

Inductive outcome :=
| RNone
| RBool (b : bool)
| RTri (b : option bool)
| RVal (r : rval)
| RStr (s : str)
| RList (l : list str)
| RPairs (l : list (str * rval))
| RItems (l : list (str * str))
| RExc (e : exc).

Definition pool := list container.

Definition var (p : pool) (i : nat) : container := nth i p empty.

Definition of_unit (r : res unit) : outcome := match r with Ok _ => RNone | Exc e => RExc e end.

Definition store (p : pool) (dst : option nat) (r : res container) : pool :=
  match dst, r with
  | Some j, Ok c => set_nth j c p
  | _, _ => p
  end.

(* what the harness shows of a value returned by items(): str(value) *)
Definition item_text (v : value) : str :=
  match v with VCls _ text => text | _ => render_v v end.

Definition set_msg_type (s : str) (c : container) : container :=
  match c with C (Some _) l => C (Some s) l | C None _ => c end.

Definition apply_lop (p : pool) (o : lop) (x : container) : container * outcome :=
  match o with
  | LSet t v r => let (c, e) := c_set t v r x in (c, of_unit e)
  | LDel t => let (c, e) := c_del t x in (c, of_unit e)
  | LAddGroup t it idx => let (c, e) := c_add_group t (conv_item p it) idx x in (c, of_unit e)
  | LSetGroup t l => let (c, e) := c_set_group t (mapM (conv_item p) l) x in (c, of_unit e)
  | LSetMsgType s => (set_msg_type s x, RNone)
  | LGet t d => (x, match c_get t d x with Ok r => RVal r | Exc e => RExc e end)
  end.

Definition step (p : pool) (o : op) : pool * outcome :=
  match o with
  | ONew i m d =>
      match c_new p m d with
      | Ok c => (set_nth i c p, RNone)
      | Exc e => (p, RExc e)
      end
  | OSet i t v r => let (c, x) := c_set t v r (var p i) in (set_nth i c p, of_unit x)
  | OGet i t d => (p, match c_get t d (var p i) with Ok r => RVal r | Exc e => RExc e end)
  | ODel i t => let (c, x) := c_del t (var p i) in (set_nth i c p, of_unit x)
  | OContains i t => (p, RBool (c_contains t (var p i)))
  | OIsGroup i t => (p, RTri (c_is_group t (var p i)))
  | OAddGroup i t it idx =>
      let (c, x) := c_add_group t (conv_item p it) idx (var p i) in (set_nth i c p, of_unit x)
  | OSetGroup i t l =>
      let (c, x) := c_set_group t (mapM (conv_item p) l) (var p i) in (set_nth i c p, of_unit x)
  | OGroupList i t =>
      (p, match c_get_group_list t (var p i) with Ok g => RList (map repr g) | Exc e => RExc e end)
  | OGroupByTag i t gt gv dst =>
      let r := c_get_group_by_tag t gt gv (var p i) in
      (store p dst r, match r with Ok c => RStr (repr c) | Exc e => RExc e end)
  | OGroupByIndex i t idx dst =>
      let r := c_get_group_by_index t idx (var p i) in
      (store p dst r, match r with Ok c => RStr (repr c) | Exc e => RExc e end)
  | OQuery i ts => (p, match c_query ts (var p i) with Ok l => RPairs l | Exc e => RExc e end)
  | OEq i j => (p, RBool (c_eq (var p i) (var p j)))
  | OEqDict i other => (p, match c_eq_dict other (var p i) with Ok b => RBool b | Exc e => RExc e end)
  | OStr i => (p, RStr (render (var p i)))
  | ORepr i => (p, RStr (repr (var p i)))
  | OSetMsgType i s =>
      (match var p i with
       | C (Some _) l => set_nth i (C (Some s) l) p
       | C None _ => p
       end, RNone)
  | OItems i => (p, RItems (map (fun kv => (fst kv, item_text (snd kv))) (items (var p i))))
  | OAt i path o =>
      let (c, r) := at_path path (apply_lop p o) (var p i) in
      (set_nth i c p, match r with Ok r => r | Exc e => RExc e end)
  end.

Definition op_var (o : op) : nat :=
  match o with
  | ONew i _ _ | OSet i _ _ _ | OGet i _ _ | ODel i _ | OContains i _ | OIsGroup i _
  | OAddGroup i _ _ _ | OSetGroup i _ _ | OGroupList i _ | OGroupByTag i _ _ _ _
  | OGroupByIndex i _ _ _ | OQuery i _ | OEq i _ | OEqDict i _ | OStr i | ORepr i
  | OSetMsgType i _ | OItems i | OAt i _ _ => i
  end.

Definition init (n : nat) : pool := repeat empty n.

(* the pool after an operation sequence *)
Definition run_state (n : nat) (ops : list op) : pool :=
  fold_left (fun p o => fst (step p o)) ops (init n).

(* ---------------------------------------------------------------- printing *)

Definition exc_code (e : exc) : Z :=
  match e with
  | EFIXMessage => 1 | EDuplicatedTag => 2 | ETagNotFound => 3 | ERepeatingTag => 4
  | EUnmappedGrp => 5 | EKeyError => 6 | EAttributeError => 7 | EIndexError => 8
  | EValueError => 9 | ETypeError => 10
  end.

Definition kind_code (k : clskind) : Z :=
  match k with KTagNotFound => 0 | KRepeating => 1 | KOtherExc => 2 | KNonExc => 3 end.

Definition sx_rval (r : rval) : sx :=
  match r with
  | RvNone => SL [SI 0]
  | RvStr s => SL [SI 1; sx_of_str s]
  | RvCls k t => SL [SI 2; SI (kind_code k); sx_of_str t]
  end.

Definition sx_outcome (o : outcome) : sx :=
  match o with
  | RNone => SL [SI 0; SL []]
  | RBool b => SL [SI 0; sx_of_bool b]
  | RTri b => SL [SI 0; sx_of_opt sx_of_bool b]
  | RVal r => SL [SI 0; sx_rval r]
  | RStr s => SL [SI 0; sx_of_str s]
  | RList l => SL [SI 0; sx_of_list sx_of_str l]
  | RPairs l => SL [SI 0; sx_of_list (fun kr => SL [sx_of_str (fst kr); sx_rval (snd kr)]) l]
  | RItems l => SL [SI 0; sx_of_list (fun kv => SL [sx_of_str (fst kv); sx_of_str (snd kv)]) l]
  | RExc e => SL [SI 1; SI (exc_code e)]
  end.

Fixpoint run_ops (p : pool) (ops : list op) : list sx :=
  match ops with
  | [] => []
  | o :: ops' =>
      let (p', r) := step p o in
      SL [sx_outcome r; sx_of_str (render (var p' (op_var o)))] :: run_ops p' ops'
  end.

(* ---------------------------------------------------------------- decoding requests *)

Definition get_nat (s : sx) : option nat := option_map N.to_nat (get_N s).

Definition get_tag (s : sx) : option tag :=
  match s with
  | SL [SI 0; SI z] => Some (TInt z)
  | SL [SI 1; x] => option_map TStr (get_str x)
  | SL [SI 2; x] => option_map TFTag (get_str x)
  | SL [SI 3; x] => option_map TObj (get_str x)
  | _ => None
  end.

Definition get_kind (z : Z) : clskind :=
  if z =? 0 then KTagNotFound else if z =? 1 then KRepeating else if z =? 2 then KOtherExc else KNonExc.

Definition get_setval (s : sx) : option setval :=
  match s with
  | SL [SI 0; x] => option_map SVal (get_str x)
  | SL [SI 1; SI k; x] => option_map (SCls (get_kind k)) (get_str x)
  | _ => None
  end.

Definition get_dflt (s : sx) : option dflt :=
  match s with
  | SL [SI 0] => Some DRaise
  | SL [SI 1] => Some DNone
  | SL [SI 2; x] => option_map DStr (get_str x)
  | _ => None
  end.

(* nested argument literals; fuel bounds the nesting depth only *)
Fixpoint get_ditem (fuel : nat) (s : sx) : option ditem :=
  match fuel with
  | O => None
  | S f =>
      match s with
      | SL [SI 0; SL ents] =>
          option_map IDict
            (opt_all (map (fun e =>
               match e with
               | SL [t; SL [SI 0; v]] =>
                   match get_tag t, get_setval v with
                   | Some t, Some v => Some (t, DVal v)
                   | _, _ => None
                   end
               | SL [t; SL [SI 1; SL l]] =>
                   match get_tag t, opt_all (map (get_ditem f) l) with
                   | Some t, Some l => Some (t, DList l)
                   | _, _ => None
                   end
               | _ => None
               end) ents))
      | SL [SI 1; j] => option_map IVar (get_nat j)
      | SL [SI 2] => Some IBad
      | _ => None
      end
  end.

Definition FUEL : nat := 40.

Definition get_dict (s : sx) : option (list (tag * dval)) :=
  match get_ditem FUEL (SL [SI 0; s]) with
  | Some (IDict d) => Some d
  | _ => None
  end.

Definition get_pair (s : sx) : option (tag * str) :=
  match s with
  | SL [t; v] => match get_tag t, get_str v with Some t, Some v => Some (t, v) | _, _ => None end
  | _ => None
  end.

Definition get_pstep (s : sx) : option pstep :=
  match s with
  | SL [SI 0; t; SI idx] => option_map (fun t => SIdx t idx) (get_tag t)
  | SL [SI 1; t; gt; gv] =>
      match get_tag t, get_tag gt, get_str gv with
      | Some t, Some gt, Some gv => Some (STag t gt gv) | _, _, _ => None end
  | SL [SI 2; t; SI n] => option_map (fun t => SList t n) (get_tag t)
  | _ => None
  end.

Definition get_lop (s : sx) : option lop :=
  match s with
  | SL [SI 0; t; v; r] =>
      match get_tag t, get_setval v, get_bool r with
      | Some t, Some v, Some r => Some (LSet t v r) | _, _, _ => None end
  | SL [SI 1; t] => option_map LDel (get_tag t)
  | SL [SI 2; t; it; SI idx] =>
      match get_tag t, get_ditem FUEL it with
      | Some t, Some it => Some (LAddGroup t it idx) | _, _ => None end
  | SL [SI 3; t; SL l] =>
      match get_tag t, opt_all (map (get_ditem FUEL) l) with
      | Some t, Some l => Some (LSetGroup t l) | _, _ => None end
  | SL [SI 4; s] => option_map LSetMsgType (get_str s)
  | SL [SI 5; t; d] =>
      match get_tag t, get_dflt d with Some t, Some d => Some (LGet t d) | _, _ => None end
  | _ => None
  end.

Definition get_op (s : sx) : option op :=
  match s with
  | SL [SI 18; i; path; o] =>
      match get_nat i, get_list get_pstep path, get_lop o with
      | Some i, Some path, Some o => Some (OAt i path o) | _, _, _ => None end
  | SL [SI 0; i; m; d] =>
      match get_nat i, get_opt get_str m, get_dict d with
      | Some i, Some m, Some d => Some (ONew i m d) | _, _, _ => None end
  | SL [SI 1; i; t; v; r] =>
      match get_nat i, get_tag t, get_setval v, get_bool r with
      | Some i, Some t, Some v, Some r => Some (OSet i t v r) | _, _, _, _ => None end
  | SL [SI 2; i; t; d] =>
      match get_nat i, get_tag t, get_dflt d with
      | Some i, Some t, Some d => Some (OGet i t d) | _, _, _ => None end
  | SL [SI 3; i; t] =>
      match get_nat i, get_tag t with Some i, Some t => Some (ODel i t) | _, _ => None end
  | SL [SI 4; i; t] =>
      match get_nat i, get_tag t with Some i, Some t => Some (OContains i t) | _, _ => None end
  | SL [SI 5; i; t] =>
      match get_nat i, get_tag t with Some i, Some t => Some (OIsGroup i t) | _, _ => None end
  | SL [SI 6; i; t; it; SI idx] =>
      match get_nat i, get_tag t, get_ditem FUEL it with
      | Some i, Some t, Some it => Some (OAddGroup i t it idx) | _, _, _ => None end
  | SL [SI 7; i; t; SL l] =>
      match get_nat i, get_tag t, opt_all (map (get_ditem FUEL) l) with
      | Some i, Some t, Some l => Some (OSetGroup i t l) | _, _, _ => None end
  | SL [SI 8; i; t] =>
      match get_nat i, get_tag t with Some i, Some t => Some (OGroupList i t) | _, _ => None end
  | SL [SI 9; i; t; gt; gv; dst] =>
      match get_nat i, get_tag t, get_tag gt, get_str gv, get_opt get_nat dst with
      | Some i, Some t, Some gt, Some gv, Some dst => Some (OGroupByTag i t gt gv dst)
      | _, _, _, _, _ => None end
  | SL [SI 10; i; t; SI idx; dst] =>
      match get_nat i, get_tag t, get_opt get_nat dst with
      | Some i, Some t, Some dst => Some (OGroupByIndex i t idx dst) | _, _, _ => None end
  | SL [SI 11; i; ts] =>
      match get_nat i, get_list get_tag ts with
      | Some i, Some ts => Some (OQuery i ts) | _, _ => None end
  | SL [SI 12; i; j] =>
      match get_nat i, get_nat j with Some i, Some j => Some (OEq i j) | _, _ => None end
  | SL [SI 13; i; o] =>
      match get_nat i, get_list get_pair o with
      | Some i, Some o => Some (OEqDict i o) | _, _ => None end
  | SL [SI 14; i] => option_map OStr (get_nat i)
  | SL [SI 15; i] => option_map ORepr (get_nat i)
  | SL [SI 16; i; s] =>
      match get_nat i, get_str s with Some i, Some s => Some (OSetMsgType i s) | _, _ => None end
  | SL [SI 17; i] => option_map OItems (get_nat i)
  | _ => None
  end.

(* request: [number of variables, ops] -> one [outcome, str(variable)] per operation *)
Definition run (req : sx) : sx :=
  match req with
  | SL [n; ops] =>
      match get_nat n, get_list get_op ops with
      | Some n, Some ops => SL (run_ops (init n) ops)
      | _, _ => err_sx 1
      end
  | _ => err_sx 2
  end.

Definition entry (line : str) : str := run_line run line.
