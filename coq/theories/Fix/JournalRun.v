(* Sx front end of the journal model: runs an operation sequence (optionally dying after a
   given number of primitive SQL statements / commits) and reports what the harness compares. *)
From Coq Require Import ZArith NArith List Bool.
From AF Require Import Base.Sx Py.Str Fix.Journal.
Import ListNotations.
Open Scope Z_scope.

Inductive op :=
| OCreate (tg sd : str)
| OPersist (h : nat) (dir : Z) (msg : str)
| OSetSeq (h : nat) (o i : option Z)
| ORecover (h : nat) (dir lo hi : Z)
| ORecoverOne (h : nat) (dir n : Z)
| OSessions
| OAll (hs : option (list nat)) (dir : option Z)
| OFindSeq (msg : str)
| OReopen.

Definition dummy_session := mkSess (-1) [] [] 0 0.
Definition handle (hs : list session) (h : nat) : session := nth h hs dummy_session.
Fixpoint set_nth {A} (n : nat) (x : A) (l : list A) : list A :=
  match n, l with
  | O, _ :: l' => x :: l'
  | S n', y :: l' => y :: set_nth n' x l'
  | _, [] => []
  end.

Definition sx_err (e : option err) : sx :=
  match e with
  | None => SI 0
  | Some EDuplicateSeqNo => SI 1
  | Some EFIXMessage => SI 2
  | Some EAssertion => SI 3
  | Some EStopIteration => SI 4
  | Some EOverflow => SI 5
  end.

Definition sx_session (s : session) : sx :=
  SL [SI (key s); sx_of_str (target s); sx_of_str (sender s); SI (next_out s); SI (next_in s)].
Definition sx_mrow (r : mrow) : sx := SL [SI (m_seq r); sx_of_str (m_msg r); SI (m_dir r); SI (m_sid r)].

Record rstate := mkR { r_db : db; r_hs : list session }.

Definition step (st : rstate) (o : op) : rstate * sx :=
  let d := r_db st in let hs := r_hs st in
  match o with
  | OCreate tg sd =>
      match create_or_load tg sd d with
      | (d', Some s) => (mkR d' (hs ++ [s]), sx_session s)
      | (d', None) => (mkR d' hs, SI (-1))
      end
  | OPersist h dir msg =>
      let (d', e) := persist_msg msg (handle hs h) dir d in (mkR d' hs, sx_err e)
  | OSetSeq h o i =>
      let '(d', s', e) := set_seq_num (handle hs h) o i d in
      (mkR d' (set_nth h s' hs), SL [sx_err e; SI (next_out s'); SI (next_in s')])
  | ORecover h dir lo hi => (st, sx_of_list sx_of_str (recover_messages (handle hs h) dir lo hi d))
  | ORecoverOne h dir n => (st, sx_of_opt sx_of_str (recover_msg (handle hs h) dir n d))
  | OSessions => (st, sx_of_list sx_session (sessions d))
  | OAll hs' dir =>
      (st, sx_of_list sx_mrow (get_all_msgs (option_map (map (fun h => key (handle hs h))) hs') dir d))
  | OFindSeq msg => (st, sx_of_opt SI (find_seq_no msg))
  | OReopen => (mkR (reopen d) hs, SI 0)
  end.

Fixpoint run_ops (st : rstate) (ops : list op) : list sx :=
  match ops with
  | [] => []
  | o :: ops' => let (st', r) := step st o in r :: run_ops st' ops'
  end.

(* ---------------------------------------------------------------- crash runs (C08) *)

(* primitives of one operation, given the handles (empty for read-only operations) *)
Definition prims_of (hs : list session) (o : op) : list prim :=
  match o with
  | OCreate tg sd => create_or_load_prims tg sd
  | OPersist h dir msg =>
      match find_seq_no msg with
      | Some seq => persist_prims seq (handle hs h) dir msg
      | None => []
      end
  | OSetSeq h o i =>
      let s := handle hs h in
      let no := match o with Some v => v | None => next_out s end in
      let ni := match i with Some v => v | None => next_in s end in
      (* only a number that is passed is asserted positive; an omitted one is taken from the
         session object unchecked (it is <= 0 after a stored counter below 0 was loaded) *)
      let bad_o := match o with Some v => v <=? 0 | None => false end in
      let bad_i := match i with Some v => v <=? 0 | None => false end in
      if bad_o || bad_i then [] else set_seq_num_prims s no ni
  | _ => []
  end.

(* number of primitives op o actually executes from state st (it stops at the first failure) *)
Fixpoint count_exec (ps : list prim) (d : db) : nat :=
  match ps with
  | [] => O
  | p :: ps' => let (d', ok) := exec_prim p d in if ok then S (count_exec ps' d') else 1%nat
  end.

(* run with a budget of primitive executions; when the budget ends inside (or exactly before)
   an operation the process dies there.  Returns the db at death (or at the end) and the
   number of operations that had completed. *)
Fixpoint exec_budget (ps : list prim) (d : db) (budget : nat) : db * nat :=
  match ps, budget with
  | [], _ => (d, budget)
  | _, O => (d, O)
  | p :: ps', S b => let (d', ok) := exec_prim p d in if ok then exec_budget ps' d' b else (d', b)
  end.

Fixpoint run_crash (st : rstate) (ops : list op) (budget : nat) (done : nat) : db * nat * bool :=
  match ops with
  | [] => (r_db st, done, false)
  | o :: ops' =>
      let ps := prims_of (r_hs st) o in
      let n := count_exec ps (r_db st) in
      if Nat.ltb budget n then
        (fst (exec_budget ps (r_db st) budget), done, true)
      else
        let (st', _) := step st o in run_crash st' ops' (budget - n) (S done)
  end.

(* what a fresh Journaler sees *)
Definition observe (d : db) : sx :=
  SL [sx_of_list sx_session (sessions d); sx_of_list sx_mrow (get_all_msgs None None d)].

(* ---------------------------------------------------------------- decoding requests *)

Definition get_nat (s : sx) : option nat := option_map N.to_nat (get_N s).

Definition get_op (s : sx) : option op :=
  match s with
  | SL [SI 0; a; b] =>
      match get_str a, get_str b with Some a, Some b => Some (OCreate a b) | _, _ => None end
  | SL [SI 1; h; SI dir; m] =>
      match get_nat h, get_str m with Some h, Some m => Some (OPersist h dir m) | _, _ => None end
  | SL [SI 2; h; o; i] =>
      match get_nat h, get_opt get_z o, get_opt get_z i with
      | Some h, Some o, Some i => Some (OSetSeq h o i) | _, _, _ => None end
  | SL [SI 3; h; SI dir; SI lo; SI hi] => option_map (fun h => ORecover h dir lo hi) (get_nat h)
  | SL [SI 4; h; SI dir; SI n] => option_map (fun h => ORecoverOne h dir n) (get_nat h)
  | SL [SI 5] => Some OSessions
  | SL [SI 6; hs; dir] =>
      match get_opt (get_list get_nat) hs, get_opt get_z dir with
      | Some hs, Some dir => Some (OAll hs dir) | _, _ => None end
  | SL [SI 7; m] => option_map OFindSeq (get_str m)
  | SL [SI 8] => Some OReopen
  | _ => None
  end.

Definition init := mkR empty_db [].

(* request:  [0, ops]            -> list of results
             [1, ops, budget]    -> [observation after death and reopen, ops completed, died?] *)
Definition run (req : sx) : sx :=
  match req with
  | SL [SI 0; ops] =>
      match get_list get_op ops with
      | Some ops => SL (run_ops init ops)
      | None => err_sx 1
      end
  | SL [SI 1; ops; b] =>
      match get_list get_op ops, get_nat b with
      | Some ops, Some b =>
          let '(d, done, died) := run_crash init ops b 0 in
          SL [observe (reopen d); sx_of_nat done; sx_of_bool died]
      | _, _ => err_sx 1
      end
  | _ => err_sx 2
  end.

Definition entry (line : str) : str := run_line run line.
