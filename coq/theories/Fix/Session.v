(* Executable model of the session layer of asyncfix (asyncfix/connection.py, session.py and the
   journal / codec operations they call), at MESSAGE level: a decoded message is its message type
   plus the ordered list of (tag, value) strings; bytes never appear here.  The model follows the
   Python line by line, including its defects (ledger rows D11, D20, ...; D10, D12, D14, D15, D22, D25, D27 are repaired in the code).
   No proofs here: see AF.Lemmas.Session*.v and AF.Props.C04 / C11 / C05.

   Conventions
   * the world is the connection object + its FIXSession counters + an abstract journal;
   * every handler is a state / writer / exception computation  M A := world -> res A ;
     a step returns the events IT produced (writer style);
   * application hooks (on_message, on_logon, on_logout, on_disconnect, on_state_change,
     should_replay) are non-raising, non-sending: they only leave an event (should_replay is a
     function parameter of the configuration);
   * atomic semantics: no task interleaving inside a handler (awaits resume at once);
   * asyncio.CancelledError is not modelled. *)
From Coq Require Import ZArith NArith List Bool.
From AF Require Import Base.Sx Py.Str.
Import ListNotations.
Open Scope Z_scope.

(* ------------------------------------------------------------------ messages *)

Definition tagv := (str * str)%type.
Record msg := mkMsg { mtype : str; mtags : list tagv }.

(* tags (decimal text, as FIXContainer keys) *)
Definition T7 : str := [55%N].                      (* BeginSeqNo *)
Definition T8 : str := [56%N].                      (* BeginString *)
Definition T9 : str := [57%N].                      (* BodyLength *)
Definition T10 : str := [49%N; 48%N].               (* CheckSum *)
Definition T16 : str := [49%N; 54%N].               (* EndSeqNo *)
Definition T34 : str := [51%N; 52%N].               (* MsgSeqNum *)
Definition T35 : str := [51%N; 53%N].               (* MsgType *)
Definition T36 : str := [51%N; 54%N].               (* NewSeqNo *)
Definition T43 : str := [52%N; 51%N].               (* PossDupFlag *)
Definition T49 : str := [52%N; 57%N].               (* SenderCompID *)
Definition T52 : str := [53%N; 50%N].               (* SendingTime *)
Definition T56 : str := [53%N; 54%N].               (* TargetCompID *)
Definition T58 : str := [53%N; 56%N].               (* Text *)
Definition T98 : str := [57%N; 56%N].               (* EncryptMethod *)
Definition T108 : str := [49%N; 48%N; 56%N].        (* HeartBtInt *)
Definition T112 : str := [49%N; 49%N; 50%N].        (* TestReqID *)
Definition T122 : str := [49%N; 50%N; 50%N].        (* OrigSendingTime *)
Definition T123 : str := [49%N; 50%N; 51%N].        (* GapFillFlag *)

(* message types (FMsg values) *)
Definition MT_HEARTBEAT : str := [48%N].
Definition MT_TESTREQUEST : str := [49%N].
Definition MT_RESENDREQUEST : str := [50%N].
Definition MT_SEQUENCERESET : str := [52%N].
Definition MT_LOGOUT : str := [53%N].
Definition MT_LOGON : str := [65%N].

Definition S_Y : str := [89%N].
Definition S_N : str := [78%N].
Definition S_0 : str := [48%N].

Inductive kind := KLogon | KSeqReset | KLogout | KResend | KTestReq | KHeartbeat | KApp.

(* the if / elif chains over msg.msg_type compare with pairwise distinct constants, so they are
   a classification of the type string *)
Definition kind_of (t : str) : kind :=
  if str_eqb t MT_LOGON then KLogon
  else if str_eqb t MT_SEQUENCERESET then KSeqReset
  else if str_eqb t MT_LOGOUT then KLogout
  else if str_eqb t MT_RESENDREQUEST then KResend
  else if str_eqb t MT_TESTREQUEST then KTestReq
  else if str_eqb t MT_HEARTBEAT then KHeartbeat
  else KApp.

Definition mkind (m : msg) : kind := kind_of (mtype m).

(* connection states (ConnectionState IntEnum numbers; tied to GenEnums in Props) *)
Definition ST_DISC_WCONN := 2.
Definition ST_DISC_BROKEN := 3.
Definition ST_NCE := 6.
Definition ST_LOGON_SENT := 7.
Definition ST_LOGON_RECV := 8.
Definition ST_HANDLING := 10.
Definition ST_TOO_HIGH := 11.
Definition ST_AWAITING := 12.
Definition ST_ACTIVE := 17.
Definition ROLE_INITIATOR := 1.
Definition ROLE_ACCEPTOR := 2.

Definition I64MAX := 9223372036854775807.
Definition I64MIN := -9223372036854775808.
Definition in_i64 (z : Z) : bool := (I64MIN <=? z) && (z <=? I64MAX).

(* ------------------------------------------------------------------ FIXContainer operations *)

Fixpoint get (t : str) (l : list tagv) : option str :=
  match l with
  | [] => None
  | (k, v) :: l' => if str_eqb k t then Some v else get t l'
  end.

Definition has (t : str) (l : list tagv) : bool :=
  match get t l with Some _ => true | None => false end.

Fixpoint del (t : str) (l : list tagv) : list tagv :=
  match l with
  | [] => []
  | (k, v) :: l' => if str_eqb k t then l' else (k, v) :: del t l'
  end.

Inductive exn :=
| XValue | XTagNotFound | XAssertion | XConn | XDupSeq | XEncoding | XAttribute | XOverflow
| XFIXMessage | XDupTag | XKey
| XOverflowIns.   (* OverflowError of the INSERT in persist_msg; CPython's sqlite3 reports a stale IntegrityError
                     (-> DuplicateSeqNoError) instead when the previous execution of that cached statement failed *)

(* msg[tag] *)
Definition get_tag (t : str) (m : msg) : str + exn :=
  match get t (mtags m) with Some v => inl v | None => inr XTagNotFound end.

(* int(msg[tag]) *)
Definition get_int (t : str) (m : msg) : Z + exn :=
  match get t (mtags m) with
  | None => inr XTagNotFound
  | Some v => match py_int v with Some z => inl z | None => inr XValue end
  end.

(* msg[tag] = value  (set without replace: DuplicatedTagError when present; new tags go last) *)
Definition set_tag (t v : str) (m : msg) : msg + exn :=
  if has t (mtags m) then inr XDupTag else inl (mkMsg (mtype m) (mtags m ++ [(t, v)])).

(* msg.set(tag, value, replace=True): an existing tag keeps its position and gets the new value, a new tag goes last *)
Fixpoint put (t v : str) (l : list tagv) : list tagv :=
  match l with
  | [] => [(t, v)]
  | (k, x) :: l' => if str_eqb k t then (k, v) :: l' else (k, x) :: put t v l'
  end.
Definition put_tag (t v : str) (m : msg) : msg := mkMsg (mtype m) (put t v (mtags m)).

(* del msg[tag] *)
Definition del_tag (t : str) (m : msg) : msg + exn :=
  if has t (mtags m) then inl (mkMsg (mtype m) (del t (mtags m))) else inr XKey.

Fixpoint del_tags (ts : list str) (m : msg) : msg + exn :=
  match ts with
  | [] => inl m
  | t :: ts' => match del_tag t m with inl m' => del_tags ts' m' | inr x => inr x end
  end.

(* ------------------------------------------------------------------ world *)

(* abstract journal of ONE session: stored counters + rows in rowid order.
   outbound rows keep the message that was written (what Codec.decode gives back for the
   journaled bytes, minus BeginString/BodyLength/MsgType/CheckSum which are re-derived);
   inbound rows only matter through their key. *)
Record journal := mkJ { j_sout : Z; j_sin : Z; j_out : list (Z * msg); j_in : list Z }.

Record world := mkW {
  st : Z;                 (* _connection_state (IntEnum number) *)
  role : Z;               (* _connection_role *)
  nin : Z;                (* session.next_num_in *)
  nout : Z;               (* session.next_num_out *)
  maxres : Z;             (* _max_seq_num_resend *)
  treq : option Z;        (* _test_req_id *)
  wasact : bool;          (* _connection_was_active *)
  lastt : Z;              (* _message_last_time (seconds) *)
  wr : bool;              (* _socket_writer is not None *)
  jr : journal
}.

Definition set_st v w := mkW v (role w) (nin w) (nout w) (maxres w) (treq w) (wasact w) (lastt w) (wr w) (jr w).
Definition set_role v w := mkW (st w) v (nin w) (nout w) (maxres w) (treq w) (wasact w) (lastt w) (wr w) (jr w).
Definition set_nin v w := mkW (st w) (role w) v (nout w) (maxres w) (treq w) (wasact w) (lastt w) (wr w) (jr w).
Definition set_nout v w := mkW (st w) (role w) (nin w) v (maxres w) (treq w) (wasact w) (lastt w) (wr w) (jr w).
Definition set_maxres v w := mkW (st w) (role w) (nin w) (nout w) v (treq w) (wasact w) (lastt w) (wr w) (jr w).
Definition set_treq v w := mkW (st w) (role w) (nin w) (nout w) (maxres w) v (wasact w) (lastt w) (wr w) (jr w).
Definition set_wasact v w := mkW (st w) (role w) (nin w) (nout w) (maxres w) (treq w) v (lastt w) (wr w) (jr w).
Definition set_lastt v w := mkW (st w) (role w) (nin w) (nout w) (maxres w) (treq w) (wasact w) v (wr w) (jr w).
Definition set_wr v w := mkW (st w) (role w) (nin w) (nout w) (maxres w) (treq w) (wasact w) (lastt w) v (jr w).
Definition set_jr v w := mkW (st w) (role w) (nin w) (nout w) (maxres w) (treq w) (wasact w) (lastt w) (wr w) v.
Definition set_jsout v w := let j := jr w in set_jr (mkJ v (j_sin j) (j_out j) (j_in j)) w.
Definition set_jsin v w := let j := jr w in set_jr (mkJ (j_sout j) v (j_out j) (j_in j)) w.
Definition set_jout v w := let j := jr w in set_jr (mkJ (j_sout j) (j_sin j) v (j_in j)) w.
Definition set_jin v w := let j := jr w in set_jr (mkJ (j_sout j) (j_sin j) (j_out j) v) w.

Inductive event :=
| Wire (m : msg)          (* bytes of this message handed to the stream writer *)
| App (m : msg)           (* on_message(m) *)
| OnLogon (healthy : bool)
| OnLogout
| OnDisconnect
| State (s : Z).          (* on_state_change(s) *)

(* configuration: constants of one connection and the deterministic oracles of a run *)
Record cfg := mkCfg {
  c_begin : str;            (* protocol.beginstring *)
  c_sender : str;           (* session.sender_comp_id *)
  c_target : str;           (* session.target_comp_id *)
  c_time : str;             (* Codec.current_datetime() *)
  c_maxsize : Z;            (* sys.maxsize *)
  c_replay : msg -> bool    (* should_replay *)
}.

(* ------------------------------------------------------------------ the monad *)

Record res (A : Type) := mkR { rv : A + exn; rw : world; re : list event }.
Arguments mkR {A}. Arguments rv {A}. Arguments rw {A}. Arguments re {A}.

Definition M (A : Type) := world -> res A.

Definition ret {A} (a : A) : M A := fun w => mkR (inl a) w [].
Definition raise {A} (x : exn) : M A := fun w => mkR (inr x) w [].
Definition bind {A B} (c : M A) (k : A -> M B) : M B := fun w =>
  let r := c w in
  match rv r with
  | inl a => let r2 := k a (rw r) in mkR (rv r2) (rw r2) (re r ++ re r2)
  | inr x => mkR (inr x) (rw r) (re r)
  end.

Notation "x <- c ;; k" := (bind c (fun x => k)) (at level 61, c at next level, right associativity).
Notation "c ;;; k" := (bind c (fun _ => k)) (at level 61, right associativity).

Definition getw : M world := fun w => mkR (inl w) w [].
Definition modw (f : world -> world) : M unit := fun w => mkR (inl tt) (f w) [].
Definition emit (e : event) : M unit := fun w => mkR (inl tt) w [e].
Definition lift {A} (v : A + exn) : M A :=
  match v with inl a => ret a | inr x => raise x end.

(* try: ... except Exception: (log)   -- None when an exception was swallowed; effects stay *)
Definition try_ {A} (c : M A) : M (option A) := fun w =>
  let r := c w in
  match rv r with
  | inl a => mkR (inl (Some a)) (rw r) (re r)
  | inr _ => mkR (inl None) (rw r) (re r)
  end.

(* try: c  finally: f   -- f runs whatever c did; c's outcome stands unless f itself raises *)
Definition finally_ {A} (c : M A) (f : M unit) : M A := fun w =>
  let r := c w in
  let r2 := f (rw r) in
  match rv r2 with
  | inl _ => mkR (rv r) (rw r2) (re r ++ re r2)
  | inr x => mkR (inr x) (rw r2) (re r ++ re r2)
  end.

(* ------------------------------------------------------------------ journal operations *)

Definition has_key (k : Z) (rows : list (Z * msg)) : bool := existsb (fun r => fst r =? k) rows.

Fixpoint lookup (k : Z) (rows : list (Z * msg)) : option msg :=
  match rows with
  | [] => None
  | (n, m) :: r => if n =? k then Some m else lookup k r
  end.

(* Journaler.persist_msg(bytes, session, OUTBOUND) for a frame whose "34=" field is seq:
   the INSERT fails on an existing key (DuplicateSeqNoError), on success the stored outbound
   counter becomes seq.  A number outside SQLite's INTEGER range raises OverflowError. *)
Definition persist_out (seq : Z) (m : msg) : M unit := fun w =>
  let j := jr w in
  if negb (in_i64 seq) then raise XOverflowIns w
  else if has_key seq (j_out j) then raise XDupSeq w
  else mkR (inl tt) (set_jsout seq (set_jout (j_out j ++ [(seq, m)]) w)) [].

(* persist_msg(raw, session, INBOUND): key = find_seq_no(raw) = int(bytes of the 34 field) *)
Definition persist_in (m : msg) : M unit := fun w =>
  let j := jr w in
  match get T34 (mtags m) with
  | None => raise XFIXMessage w
  | Some v =>
      match py_int_bytes v with
      | None => raise XFIXMessage w
      | Some seq =>
          if negb (in_i64 seq) then raise XOverflowIns w
          else if existsb (Z.eqb seq) (j_in j) then raise XDupSeq w
          else mkR (inl tt) (set_jsin seq (set_jin (j_in j ++ [seq]) w)) []
      end
  end.

(* Journaler.set_seq_num(session, next_num_out=o, next_num_in=i) *)
Definition set_seq_num (o i : option Z) : M unit :=
  (match o with
   | Some v => if v <=? 0 then raise XAssertion else modw (set_nout v)
   | None => ret tt
   end) ;;;
  (match i with
   | Some v => if v <=? 0 then raise XAssertion else modw (set_nin v)
   | None => ret tt
   end) ;;;
  w <- getw ;;
  let no := nout w in let ni := nin w in
  if negb (in_i64 (ni - 1) && in_i64 (no - 1)) then raise XOverflow else
  (* UPDATE session SET inboundSeqNo, outboundSeqNo *)
  modw (fun w => set_jsout (no - 1) (set_jsin (ni - 1) w)) ;;;
  (if negb (in_i64 ni) then raise XOverflow else ret tt) ;;;
  modw (fun w => set_jin (filter (fun k => k <? ni) (j_in (jr w))) w) ;;;
  (if negb (in_i64 no) then raise XOverflow else ret tt) ;;;
  modw (fun w => set_jout (filter (fun r => fst r <? no) (j_out (jr w))) w).

Fixpoint insert_row (r : Z * msg) (l : list (Z * msg)) : list (Z * msg) :=
  match l with
  | [] => [r]
  | x :: l' => if fst r <=? fst x then r :: l else x :: insert_row r l'
  end.
Definition sort_rows (l : list (Z * msg)) : list (Z * msg) := fold_right insert_row [] l.

(* recover_messages(session, OUTBOUND, lo, hi): ORDER BY seqNo *)
Definition recover_out (lo hi : Z) : M (list (Z * msg)) := fun w =>
  if negb (in_i64 lo && in_i64 hi) then raise XOverflow w
  else ret (sort_rows (filter (fun r => (lo <=? fst r) && (fst r <=? hi)) (j_out (jr w)))) w.

(* ------------------------------------------------------------------ connection methods *)

Definition state_set (s : Z) : M unit :=
  modw (fun w => let w1 := set_st s w in if s =? ST_ACTIVE then set_wasact true w1 else w1) ;;;
  emit (State s).

(* Codec.encode: sequence-number selection.  Returns the number and whether it was allocated *)
Definition is_hdr_skip (t : str) : bool :=
  str_eqb t T34 || str_eqb t T52 || str_eqb t T49 || str_eqb t T56.

Definition wire_tags (c : cfg) (seq : Z) (m : msg) : list tagv :=
  [(T49, c_sender c); (T56, c_target c); (T34, z_to_dec seq); (T52, c_time c)]
  ++ filter (fun tv => negb (is_hdr_skip (fst tv))) (mtags m).

Definition raw_seq (m : msg) : bool :=
  match mkind m with
  | KSeqReset => true
  | _ => match get T43 (mtags m) with Some v => str_eqb v S_Y | None => false end
  end.

Definition encode (c : cfg) (m : msg) : M (Z * msg) :=
  if raw_seq m then
    match get T34 (mtags m) with
    | None => raise XEncoding
    | Some v => match py_int v with
                | None => raise XValue
                | Some n => ret (n, mkMsg (mtype m) (wire_tags c n m))
                end
    end
  else
    w <- getw ;;
    modw (set_nout (nout w + 1)) ;;;
    ret (nout w, mkMsg (mtype m) (wire_tags c (nout w) m)).

(* the state / role gates of send_msg (w = the world at entry) *)
Definition send_gate (m : msg) (w : world) : M unit :=
  if st w <? ST_NCE then raise XConn
  else if st w =? ST_NCE then
    match mkind m with
    | KLogon | KLogout => state_set ST_LOGON_SENT ;;; modw (set_role ROLE_INITIATOR)
    | _ => raise XConn
    end
  else if (role w =? ROLE_INITIATOR) && (st w =? ST_LOGON_SENT)
          && negb (match mkind m with KLogout => true | _ => false end)
    then raise XConn
  (* elif (not the initiator) state == LOGON_INITIAL_RECV: only Logon / Logout before the Logon reply *)
  else if negb (role w =? ROLE_INITIATOR) && (st w =? ST_LOGON_RECV)
          && negb (match mkind m with KLogon | KLogout => true | _ => false end)
    then raise XConn
  else ret tt.

(* replies to a ResendRequest (PossDupFlag = Y retransmissions, SequenceReset-GapFill) are written but not
   journaled: the journal keeps the original messages *)
Definition skip_journal (m : msg) : bool :=
  (match get T43 (mtags m) with Some v => str_eqb v S_Y | None => false end)
  || ((match mkind m with KSeqReset => true | _ => false end)
      && (match get T123 (mtags m) with Some v => str_eqb v S_Y | None => false end)).

(* encode, journal, write, drain: the journal comes first, so a journal error leaves nothing on the wire and a
   number that reached the wire is never allocated again *)
Definition send_write (c : cfg) (m : msg) : M unit :=
  sm <- encode c m ;;
  (if skip_journal m then ret tt else persist_out (fst sm) (snd sm)) ;;;
  w1 <- getw ;;
  (if wr w1 then ret tt else raise XAttribute) ;;;      (* None.write(...) *)
  emit (Wire (snd sm)).

(* TestRequest gate, then the write *)
Definition send_tail (c : cfg) (m : msg) (w : world) : M unit :=
  (match mkind m, treq w with
   | KTestReq, None => raise XConn
   | KTestReq, Some t =>
       (* R13c: only the probe send_test_req() has just registered may go out:
          msg.get(TestReqID, None) != str(self._test_req_id) -> FIXConnectionError *)
       match get T112 (mtags m) with
       | Some v => if str_eqb v (z_to_dec t) then ret tt else raise XConn
       | None => raise XConn
       end
   | _, _ => ret tt
   end) ;;;
  send_write c m.

Definition send_msg (c : cfg) (m : msg) : M unit :=
  w <- getw ;;
  send_gate m w ;;;
  send_tail c m w.

Definition send_test_req (c : cfg) (now : Z) : M unit :=
  w <- getw ;;
  match treq w with
  | Some _ => raise XConn
  | None =>
      modw (set_treq (Some now)) ;;;
      send_msg c (mkMsg MT_TESTREQUEST [(T112, z_to_dec now)])
  end.

(* logout_message: None = no Logout; Some "" = Logout without Text *)
Definition disconnect (c : cfg) (ds : Z) (lm : option str) : M unit :=
  w <- getw ;;
  if st w <=? ST_DISC_BROKEN then ret tt else
  (if ds <=? ST_DISC_BROKEN then ret tt else raise XAssertion) ;;;
  modw (fun w => set_maxres 0 (set_lastt 0 (set_treq None w))) ;;;
  (match lm with
   | Some s => send_msg c (mkMsg MT_LOGOUT (match s with [] => [] | _ => [(T58, s)] end))
   | None => ret tt
   end) ;;;
  modw (set_wr false) ;;;
  state_set ds ;;;
  emit OnDisconnect.

(* reasons of _validate_integrity / _process_heartbeat, as short codes (the texts are not compared) *)
Definition R_BEGIN : str := [66%N].    (* "B" *)
Definition R_COMP : str := [67%N].     (* "C" *)
Definition R_NOSEQ : str := [83%N].    (* "S" *)
Definition R_LOW : str := [76%N].      (* "L" *)
Definition R_TESTID : str := [84%N].   (* "T" *)
Definition R_GARBLED : str := [71%N].  (* "G" *)

Inductive vres := VOk | VTrue | VStr (code : str) | VExc (x : exn).

Definition validate_integrity (c : cfg) (m : msg) (w : world) : vres :=
  match get T8 (mtags m) with
  | None => VExc XTagNotFound
  | Some b =>
      if negb (str_eqb b (c_begin c)) then VStr R_BEGIN else
      match get T49 (mtags m), get T56 (mtags m) with
      | Some s, Some t =>
          if negb (str_eqb (c_sender c) t && str_eqb (c_target c) s) then VStr R_COMP else
          match get T34 (mtags m) with
          | None => VStr R_NOSEQ
          | Some v =>
              match py_int v with
              | None => VStr R_GARBLED        (* except ValueError: "MsgSeqNum(34) is not a number" *)
              | Some n =>
                  if (n <? nin w)
                     && negb (match mkind m with KSeqReset => true | _ => false end)
                     && negb (st w =? ST_AWAITING)
                  then VStr R_LOW else VOk
              end
          end
      | _, _ => VTrue
      end
  end.

Definition process_logon (c : cfg) (m : msg) : M unit :=
  w <- getw ;;
  if negb ((role w =? ROLE_ACCEPTOR) || (role w =? ROLE_INITIATOR)) then raise XAssertion else
  n <- lift (get_int T34 m) ;;
  (if role w =? ROLE_ACCEPTOR then
     if negb (st w =? ST_LOGON_RECV) then raise XAssertion else
     if nin w <=? n then
       e <- lift (get_tag T98 m) ;;
       h <- lift (get_tag T108 m) ;;
       send_msg c (mkMsg MT_LOGON [(T98, e); (T108, h)])
     else ret tt
   else ret tt) ;;;
  w1 <- getw ;;
  (if n =? nin w1 then state_set ST_ACTIVE else state_set ST_TOO_HIGH) ;;;
  w2 <- getw ;;
  emit (OnLogon (st w2 =? ST_ACTIVE)).

Definition check_gaps (c : cfg) (n : Z) : M bool :=
  w <- getw ;;
  if nin w <? n then
    (if negb (st w =? ST_AWAITING) then
       modw (set_maxres n) ;;;
       send_msg c (mkMsg MT_RESENDREQUEST [(T7, z_to_dec (nin w)); (T16, S_0)]) ;;;
       state_set ST_AWAITING
     else ret tt) ;;;
    ret false
  else ret true.

Definition process_logout (c : cfg) (m : msg) : M unit :=
  w <- getw ;;
  emit OnLogout ;;;
  disconnect c (if wasact w then ST_DISC_WCONN else ST_DISC_BROKEN) None.

Definition process_seqreset (c : cfg) (m : msg) : M unit :=
  a <- lift (get_int T34 m) ;;
  set_seq_num None (Some a) ;;;
  b <- lift (get_int T36 m) ;;
  set_seq_num None (Some b).

Definition process_testrequest (c : cfg) (m : msg) : M unit :=
  send_msg c (mkMsg MT_HEARTBEAT
                [(T112, match get T112 (mtags m) with Some v => v | None => S_0 end)]).

Definition process_heartbeat (c : cfg) (m : msg) : M unit :=
  w <- getw ;;
  match treq w with
  | None => ret tt
  | Some id =>
      match get T112 (mtags m) with
      | None => ret tt
      | Some v =>
          let mid := match py_int v with Some z => z | None => 0 end in
          if negb (id =? mid) then disconnect c ST_DISC_BROKEN (Some R_TESTID)
          else modw (set_treq None)
      end
  end.

(* --- _process_resend --- *)

Definition is_noreply (t : str) : bool :=
  match kind_of t with KApp => false | _ => true end.

(* what Codec.decode returns for a journaled outbound frame *)
Definition decode_row (c : cfg) (r : Z * msg) : msg :=
  let m := snd r in
  mkMsg (mtype m)
        ([(T8, c_begin c); (T9, S_0); (T35, mtype m)] ++ mtags m ++ [(T10, S_0)]).

Definition gap_fill (b : Z) (e : str) : msg :=
  mkMsg MT_SEQUENCERESET [(T123, S_Y); (T34, z_to_dec b); (T36, e)].

Fixpoint replay_loop (c : cfg) (rows : list (Z * msg)) (gfb gfe : Z) : M (Z * Z) :=
  match rows with
  | [] => ret (gfb, gfe)
  | r :: rows' =>
      let dm := decode_row c r in
      n <- lift (get_int T34 dm) ;;
      t <- lift (get_tag T35 dm) ;;
      if is_noreply t || negb (c_replay c dm) then replay_loop c rows' gfb (n + 1)
      else
        (* numbers missing in the journal before this message are gap filled too *)
        let gfe := if gfb <? n then n else gfe in
        (if gfb <? gfe then send_msg c (gap_fill gfb (z_to_dec gfe)) else ret tt) ;;;
        let m1 := put_tag T43 S_Y dm in                 (* replace=True: a journaled 43 / 122 is overwritten *)
        v52 <- lift (get_tag T52 m1) ;;
        let m2 := put_tag T122 v52 m1 in
        m3 <- lift (del_tags [T35; T8; T9; T52; T49; T56; T10] m2) ;;
        send_msg c m3 ;;;
        replay_loop c rows' (n + 1) gfe
  end.

Definition process_resend (c : cfg) (m : msg) : M unit :=
  w <- getw ;;
  (if negb (st w =? ST_AWAITING) then state_set ST_HANDLING else ret tt) ;;;
  b0 <- lift (get_int T7 m) ;;
  e0 <- lift (get_int T16 m) ;;
  let b := if b0 <? 1 then 1 else b0 in      (* invalid request: answer from the first message *)
  let e := if (e0 =? 0) || (c_maxsize c <? e0) then c_maxsize c else e0 in   (* beyond 64 bits = everything *)
  rows <- recover_out b e ;;
  w1 <- getw ;;
  let cur := nout w1 in
  g <- replay_loop c rows b b ;;
  (if cur <? snd g then raise XAssertion else ret tt) ;;;
  (* the tail gap fill: only up to the requested EndSeqNo *)
  let last := Z.min cur (e + 1) in
  (if fst g <? last then send_msg c (gap_fill (fst g) (z_to_dec last)) else ret tt) ;;;
  w2 <- getw ;;
  if negb (st w2 =? ST_AWAITING) then state_set ST_ACTIVE else ret tt.

(* --- FIXSession.set_next_num_in and _finalize_message --- *)

Definition set_next_num_in (m : msg) : M Z :=
  match mkind m with
  | KSeqReset =>
      match get T36 (mtags m) with
      | None => ret 0
      | Some v => match py_int v with
                  | None => raise XValue
                  | Some n => modw (set_nin n) ;;; ret (n - 1)
                  end
      end
  | _ =>
      match get T34 (mtags m) with
      | None => ret 0
      | Some v => match py_int v with
                  | None => raise XValue
                  | Some n =>
                      w <- getw ;;
                      if negb (n =? nin w) then ret (-1)
                      else modw (set_nin (n + 1)) ;;; ret n
                  end
      end
  end.

Definition finalize_tail (m : msg) (now : Z) (r : Z) : M unit :=
  w <- getw ;;
  (if st w =? ST_AWAITING then
     if negb (0 <? maxres w) then raise XAssertion else
     if maxres w <=? r then modw (set_maxres 0) ;;; state_set ST_ACTIVE else ret tt
   else ret tt) ;;;
  modw (set_lastt now) ;;;
  persist_in m.

Definition finalize (m : msg) (now : Z) : M unit :=
  r <- set_next_num_in m ;;
  if r <=? 0 then ret tt else finalize_tail m now r.

(* --- _process_message --- *)

(* the LOGOUT branch of the pre-handlers: the peer's Logout, when in sequence, is counted and journaled before
   the session is torn down (_message_last_time is deliberately left alone) *)
Definition logout_counted (c : cfg) (m : msg) : M unit :=
  n <- lift (get_int T34 m) ;;
  w1 <- getw ;;
  (* try: count + journal  except Exception: log *)
  (if n =? nin w1 then try_ (set_next_num_in m ;;; persist_in m) ;;; ret tt else ret tt) ;;;
  process_logout c m.

(* the try body up to and including _check_seqnum_gaps.
   None = one of the early returns; Some b = is_valid_msg_num *)
Definition pre_handlers (c : cfg) (m : msg) (w : world) : M unit :=
  (if st w =? ST_NCE then state_set ST_LOGON_RECV ;;; modw (set_role ROLE_ACCEPTOR) else ret tt) ;;;
  match mkind m with
  | KLogon => process_logon c m
  | KSeqReset => process_seqreset c m
  | KLogout => logout_counted c m
  | _ => ret tt
  end.

Definition gap_check (c : cfg) (m : msg) : M (option bool) :=
  w1 <- getw ;;
  if st w1 <=? ST_DISC_BROKEN then ret None else
  n <- lift (get_int T34 m) ;;
  b <- check_gaps c n ;;
  ret (Some b).

(* messages that make the connection drop before anything is handled: the first message of an acceptor that is
   not a Logon; anything but Logon / Logout while the Logon exchange is under way *)
Definition early_drop (m : msg) (w : world) : bool :=
  ((st w =? ST_NCE) && negb (match mkind m with KLogon => true | _ => false end))
  || (((st w =? ST_LOGON_SENT) || (st w =? ST_LOGON_RECV))
      && negb (match mkind m with KLogon | KLogout => true | _ => false end)).

Definition part1 (c : cfg) (m : msg) : M (option bool) :=
  w <- getw ;;
  if st w <? ST_NCE then raise XAssertion else
  if early_drop m w then
    disconnect c ST_DISC_BROKEN None ;;; ret None
  else
    pre_handlers c m w ;;; gap_check c m.

(* a ResendRequest that could not be served must not leave the state in RESENDREQ_HANDLING for ever *)
Definition restore_handling : M unit :=
  w <- getw ;;
  if st w =? ST_HANDLING then state_set ST_ACTIVE else ret tt.

Definition dispatch (c : cfg) (m : msg) (valid : bool) : M unit :=
  match mkind m with
  | KResend => finally_ (process_resend c m) restore_handling
  | KSeqReset => ret tt
  | KLogon => ret tt
  | KTestReq => process_testrequest c m
  | KHeartbeat => process_heartbeat c m
  | KLogout | KApp =>
      (* if is_valid_msg_num and msg_seq_num == self._session.next_num_in: on_message(msg)
         (msg_seq_num is the local computed before _check_seqnum_gaps: it parsed when valid is true) *)
      if valid then
        w <- getw ;;
        match get_int T34 m with
        | inl n => if n =? nin w then emit (App m) else ret tt
        | inr _ => ret tt
        end
      else ret tt
  end.

(* after the try block: dispatch under `except Exception`, then `finally: if is_valid_msg_num` *)
Definition after_part1 (c : cfg) (m : msg) (now : Z) (r1 : option (option bool)) : M unit :=
  match r1 with
  | Some (Some true) => try_ (dispatch c m true) ;;; finalize m now
  | Some (Some false) => try_ (dispatch c m false) ;;; ret tt
  | _ => ret tt
  end.

Definition process_message (c : cfg) (m : msg) (now : Z) : M unit := fun w =>
  match validate_integrity c m w with
  | VExc x => raise x w
  | VTrue => disconnect c ST_DISC_BROKEN None w
  | VStr s => disconnect c ST_DISC_BROKEN (Some s) w
  | VOk => (r1 <- try_ (part1 c m) ;; after_part1 c m now r1) w
  end.

(* ------------------------------------------------------------------ histories *)

Inductive op :=
| OIn (m : msg) (now : Z)         (* _process_message(decoded inbound message) *)
| OSend (m : msg)                 (* application / library call send_msg(m) *)
| OTestReq (now : Z)              (* send_test_req() *)
| ODisc (ds : Z) (lm : option str). (* disconnect(ds, logout_message) (reader / timer task) *)

Definition step (c : cfg) (o : op) : M unit :=
  match o with
  | OIn m now => process_message c m now
  | OSend m => send_msg c m
  | OTestReq now => send_test_req c now
  | ODisc ds lm => disconnect c ds lm
  end.

(* one record per executed operation: world before, operation, result *)
Record srec := mkS { s_before : world; s_op : op; s_res : res unit }.
Definition s_after (s : srec) : world := rw (s_res s).
Definition s_events (s : srec) : list event := re (s_res s).

Fixpoint run (c : cfg) (w : world) (h : list op) : list srec :=
  match h with
  | [] => []
  | o :: h' => let r := step c o w in mkS w o r :: run c (rw r) h'
  end.

Definition final (c : cfg) (w : world) (h : list op) : world :=
  fold_left (fun w o => rw (step c o w)) h w.

Definition trace (l : list srec) : list event := flat_map s_events l.
