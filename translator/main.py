"""Runs every translator against the asyncfix in $VERIF_REPO; prints one `GEN {json}` line each.

A translator is a module with NAME (gen file stem), SOURCES (repo-relative files it reads)
and generate() -> Coq text.  Fail-closed: an exception is reported as ok=false and the
previous gen file is left untouched (the property that needs it then reports a broken
obligation)."""
import importlib
import json
import os
import sys
import traceback

from vlib import core

MODULES = ["gen_enums", "gen_groups", "gen_change_status", "gen_const", "gen_schema", "gen_lex", "gen_order", "gen_session"]


def main():
    rc = 0
    for m in MODULES:
        try:
            mod = importlib.import_module("translator." + m)
        except ModuleNotFoundError as e:
            if e.name == "translator." + m:
                continue
            raise
        rec = {"name": mod.NAME, "ok": False, "error": "", "sources": {}}
        try:
            for s in mod.SOURCES:
                p = os.path.join(core.REPO, s)
                rec["sources"][s] = core.sha_file(p)[:16] if os.path.exists(p) else "missing"
            text = mod.generate()
            # no repository path in the header: runs against scratch worktrees with identical sources must not
            # rewrite the file (a rewrite triggers a rebuild of everything that depends on the table)
            header = "(* GENERATED from the repository under test by translator/%s.py -- do not edit.\n   sources: %s *)\n" % (
                m, json.dumps(rec["sources"], sort_keys=True))
            rec["changed"] = core.write_if_changed(os.path.join(core.COQ, "gen", mod.NAME + ".v"), header + text)
            rec["ok"] = True
            rec["misses"] = getattr(mod, "MISSES", [])
        except Exception:
            rec["error"] = traceback.format_exc()[-1500:]
            rc = 1
        print("GEN " + json.dumps(rec))
    return rc


if __name__ == "__main__":
    sys.exit(main())
