(* Model of asyncfix/protocol/schema.py: FIXSchema.validate, _validate_header,
   SchemaGroup.validate_group, over the PARSED schema objects (C15).  No proofs here.

   The code modelled is schema.py WITH fixes/C15-required-groups-header-members.patch applied
   (required groups are enforced at every level, a plain group-item member given as a group is a
   message error, header members met in the message are checked against the header set).

   Single-value validation (SchemaField.validate_value) belongs to C19 and is NOT modelled: every
   definition is parametric in [value_check f s] = the exception class validate_value raises for
   field f and string s ([None]: it returns True).

   How the Python objects are rendered:
   * SchemaField            -> [field] (tag text, name code, datatype code, has-enum flag);
                               __eq__/__hash__ compare names, so sets are searched by name code;
   * SchemaSet.members/.required (two dicts with the same keys, key = value object)
                            -> [list member] in dict order, each member carrying its required entry;
   * SchemaGroup            -> [MGroup field required members];
   * FIXSchema._tag2field   -> [s_fields], _header -> [s_header],
     _messages_types        -> [s_messages] (msg_type text, members);
   * FIXMessage             -> msg_type text and an ordered list of (tag text, value);
     a value is a string or a repeating group = list of items, an item = ordered list of
     (tag, value) (FIXContainer.tags, an OrderedDict: keys are unique, see [keys_unique]).
   Dict lookups by tag are first-match searches; for the dictionaries they are applied to
   ([wf_schema]) keys are unique, so first/last match coincide. *)
From Coq Require Import ZArith NArith List Bool.
From AF Require Import Base.Sx Py.Str.
Import ListNotations.
Open Scope Z_scope.

(* exception classes *)
Inductive exc := EFIXMessage | EAssertion | EOther (code : N).
Inductive res := Ok | Exc (e : exc).

Record field := mkField { f_tag : str; f_name : N; f_type : N; f_enum : bool }.

Inductive member :=
| MField (f : field) (req : bool)
| MGroup (f : field) (req : bool) (ms : list member).

Record schema := mkSchema {
  s_fields : list field;
  s_header : list member;
  s_messages : list (str * list member)
}.

Inductive value :=
| VStr (s : str)
| VGrp (items : list (list (str * value))).

Definition container := list (str * value).
Record message := mkMsg { msg_type : str; tags : container }.

Definition mfield (m : member) : field := match m with MField f _ => f | MGroup f _ _ => f end.
Definition mtag (m : member) : str := f_tag (mfield m).          (* SchemaField.tag / SchemaSet.tag *)
Definition mreq (m : member) : bool := match m with MField _ r => r | MGroup _ r _ => r end.

(* FIXContainer.__contains__, .get / .tags[...] *)
Definition has_tag (t : str) (c : container) : bool := existsb (fun e => str_eqb (fst e) t) c.
Fixpoint get_tag (t : str) (c : container) : option value :=
  match c with
  | [] => None
  | (t', v) :: r => if str_eqb t' t then Some v else get_tag t r
  end.

(* tag_order / tag_fields of validate_group: index and member for a tag *)
Fixpoint find_member_from (t : str) (ms : list member) (i : nat) : option (nat * member) :=
  match ms with
  | [] => None
  | m :: r => if str_eqb (mtag m) t then Some (i, m) else find_member_from t r (S i)
  end.
Definition find_member (t : str) (ms : list member) : option (nat * member) := find_member_from t ms 0.

(* `for sv in members: if sv.tag not in fmsg and required[sv]: raise FIXMessageError` *)
Fixpoint check_required (ms : list member) (c : container) : res :=
  match ms with
  | [] => Ok
  | m :: r => if negb (has_tag (mtag m) c) && mreq m then Exc EFIXMessage else check_required r c
  end.

(* SchemaSet.__contains__ / __getitem__ with a SchemaField argument: dict lookup by name *)
Definition name_is (f : field) (m : member) : bool := N.eqb (f_name (mfield m)) (f_name f).
Definition set_contains (ms : list member) (f : field) : bool := existsb (name_is f) ms.
Definition set_get (ms : list member) (f : field) : option member := find (name_is f) ms.

Definition tag2field (Sc : schema) (t : str) : option field :=
  find (fun f => str_eqb (f_tag f) t) (s_fields Sc).
Definition find_message (Sc : schema) (mt : str) : option (list member) :=
  option_map snd (find (fun p => str_eqb (fst p) mt) (s_messages Sc)).

Definition TAG8 : str := [56]%N.
Definition TAG10 : str := [49; 48]%N.

Section Validate.

Variable value_check : field -> str -> option exc.

Definition check_value (f : field) (s : str) : res :=
  match value_check f s with None => Ok | Some e => Exc e end.

(* ---- SchemaGroup.validate_group, the recursion left open ([rec] validates one member's value) ---- *)
Section Group.
  Variable rec : member -> value -> res.
  Variable ms : list member.

  (* the loop over fmsg.items() of one item followed by the two checks after it *)
  Fixpoint item_loop (whole es : container) (prev : Z) (first : bool) : res :=
    match es with
    | [] => if first then check_required ms whole else Exc EFIXMessage
    | (t, v) :: r =>
        match find_member t ms with
        | None => Exc EFIXMessage                          (* unsupported tag *)
        | Some (i, mem) =>
            let first' := if Nat.eqb i 0 then true else first in
            if prev >? Z.of_nat i then Exc EFIXMessage     (* incorrect tag order *)
            else match rec mem v with
                 | Ok => item_loop whole r (Z.of_nat i) first'
                 | e => e
                 end
        end
    end.

  Fixpoint items_loop (items : list container) : res :=
    match items with
    | [] => Ok
    | it :: r => match item_loop it it (-1) false with Ok => items_loop r | e => e end
    end.
End Group.

(* the dispatch on the member kind, the same at message level and inside a group item:
     SchemaField: is_group(tag) -> FIXMessageError, else validate_value(value)
     SchemaGroup: not is_group(tag) -> FIXMessageError, else validate_group(get_group_list(tag)) *)
Fixpoint validate_member (mem : member) (v : value) {struct v} : res :=
  match mem with
  | MField f _ =>
      match v with
      | VGrp _ => Exc EFIXMessage
      | VStr s => check_value f s
      end
  | MGroup _ _ ms =>
      match v with
      | VStr _ => Exc EFIXMessage
      | VGrp items => items_loop validate_member ms items
      end
  end.

Definition validate_group (ms : list member) (items : list container) : res :=
  items_loop validate_member ms items.

(* ---- FIXSchema._validate_header ---- *)
Fixpoint validate_header_loop (hs : list member) (c : container) : res :=
  match hs with
  | [] => Ok
  | m :: r =>
      if mreq m then
        if negb (has_tag (mtag m) c) then Exc EFIXMessage
        else match m with
             | MField f _ =>
                 match get_tag (f_tag f) c with
                 | Some (VStr s) =>
                     match check_value f s with Ok => validate_header_loop r c | e => e end
                 | Some (VGrp _) => Exc EFIXMessage      (* FIXContainer.get on a group *)
                 | None => Exc EFIXMessage               (* unreachable: has_tag holds *)
                 end
             | MGroup _ _ _ => validate_header_loop r c
             end
      else validate_header_loop r c
  end.

(* ---- FIXSchema.validate ---- *)
Section Body.
  Variable Sc : schema.
  Variable M : list member.

  Definition member_for (t : str) : option member :=
    match tag2field Sc t with
    | None => None                                       (* tag not in schema *)
    | Some fld =>
        if set_contains (s_header Sc) fld then set_get (s_header Sc) fld
        else if negb (set_contains M fld) then None      (* not allowed in this message *)
        else set_get M fld
    end.

  Fixpoint body_loop (es : container) : res :=
    match es with
    | [] => Ok
    | (t, v) :: r =>
        if str_eqb t TAG10 then body_loop r
        else match member_for t with
             | None => Exc EFIXMessage
             | Some mem => match validate_member mem v with Ok => body_loop r | e => e end
             end
    end.
End Body.

Definition validate (Sc : schema) (m : message) : res :=
  match find_message Sc (msg_type m) with
  | None => Exc EFIXMessage
  | Some M =>
      match check_required M (tags m) with
      | Ok =>
          match (if has_tag TAG8 (tags m) then validate_header_loop (s_header Sc) (tags m) else Ok) with
          | Ok => body_loop Sc M (tags m)
          | e => e
          end
      | e => e
      end
  end.

End Validate.

(* ---- representation invariant of messages: OrderedDict keys are unique, at every level ---- *)
Fixpoint nodupb (l : list str) : bool :=
  match l with
  | [] => true
  | x :: r => negb (existsb (str_eqb x) r) && nodupb r
  end.

Fixpoint value_keys_unique (v : value) : bool :=
  match v with
  | VStr _ => true
  | VGrp items =>
      forallb (fun it => nodupb (map fst it) && forallb (fun e => value_keys_unique (snd e)) it) items
  end.
Definition keys_unique (c : container) : bool :=
  nodupb (map fst c) && forallb (fun e => value_keys_unique (snd e)) c.

(* ---- well-formed schemas (computable; checked on the regenerated dictionaries in Props/C15.v) ---- *)
Definition field_eqb (a b : field) : bool :=
  str_eqb (f_tag a) (f_tag b) && N.eqb (f_name a) (f_name b) && N.eqb (f_type a) (f_type b)
  && Bool.eqb (f_enum a) (f_enum b).

Fixpoint nodupN (l : list N) : bool :=
  match l with
  | [] => true
  | x :: r => negb (existsb (N.eqb x) r) && nodupN r
  end.

Section Wf.
  Variable Sc : schema.
  Definition known (f : field) : bool := existsb (field_eqb f) (s_fields Sc).
  (* member fields are entries of the field table; member tags are unique in every set *)
  Fixpoint wf_member (m : member) : bool :=
    known (mfield m) &&
    match m with
    | MField _ _ => true
    | MGroup _ _ ms => nodupb (map mtag ms) && forallb wf_member ms
    end.
  Definition wf_set (ms : list member) : bool := nodupb (map mtag ms) && forallb wf_member ms.
End Wf.

Definition wf_schema (Sc : schema) : bool :=
  nodupb (map f_tag (s_fields Sc)) && nodupN (map f_name (s_fields Sc))
  && nodupb (map fst (s_messages Sc))
  && negb (existsb (fun m => str_eqb (mtag m) TAG10) (s_header Sc))   (* CheckSum is not a header member *)
  && forallb (fun p => wf_set Sc (s_header Sc ++ snd p)) (s_messages Sc).
