(* C16 - the order status transition function is total, closed and lifecycle-safe.
   Theorems only; proofs live in AF.Lemmas.OrderStatusL.  `cells` is the complete graph of the
   real change_status, regenerated from /repo on every run (16 statuses x 5 kinds x 18 exec
   types x 15 reported statuses x 2 error modes). *)
From Coq Require Import NArith List Bool.
From AF Require Import Fix.OrderStatus Lemmas.OrderStatusL.

(* the enumerated domain is the one the property names *)
Theorem C16_domain_full : domain_ok = true.
Proof. exact domain_is_full. Qed.
Print Assumptions C16_domain_full.

Theorem C16_enum_values : enum_ok = true.
Proof. exact enums_match. Qed.
Print Assumptions C16_enum_values.

(* total and closed: reported status, no change, or the order error; error only when asked to raise *)
Theorem C16_total_closed : forall c, In c cells -> law_closed c = true.
Proof. exact closed_everywhere. Qed.
Print Assumptions C16_total_closed.

(* cancel / replace requests: permitted exactly for NEW, PARTIALLY_FILLED, SUSPENDED; ignored while pending; refused otherwise *)
Theorem C16_requests : forall c, In c cells -> law_requests c = true.
Proof. exact requests_everywhere. Qed.
Print Assumptions C16_requests.

Theorem C16_never_back_to_created : forall c, In c cells -> law_no_created c = true.
Proof. exact no_created_everywhere. Qed.
Print Assumptions C16_never_back_to_created.

(* finished statuses are absorbing: everywhere, the OrderCancelReject kind included (repaired in /repo) *)
Theorem C16_absorbing : forall c, In c cells -> law_absorbing c = true.
Proof. exact absorbing_everywhere. Qed.
Print Assumptions C16_absorbing.

(* a just-created order accepts only PENDING_NEW or REJECTED: everywhere (repaired in /repo) *)
Theorem C16_created_accepts : forall c, In c cells -> law_created_accepts c = true.
Proof. exact created_accepts_everywhere. Qed.
Print Assumptions C16_created_accepts.

(* every law, for every cell outside the known class (an OrderCancelReject reporting PENDING_NEW for an
   acknowledged, unfinished order) *)
Theorem C16_lifecycle_partial : forall c, In c cells -> kf_cancel_reject c = false -> all_laws c = true.
Proof. exact lifecycle_partial. Qed.
Print Assumptions C16_lifecycle_partial.

(* the full statement is false of the code today: every cell of the class moves the order back to PENDING_NEW *)
Theorem C16_pending_new_refuted : exists c, In c cells /\ kf_cancel_reject c = true /\ law_no_pending_new c = false.
Proof. exact pending_new_refuted. Qed.
Print Assumptions C16_pending_new_refuted.

Theorem C16_class_is_exact : forall c, In c cells -> kf_cancel_reject c = true -> law_no_pending_new c = false.
Proof. exact class_is_exact. Qed.
Print Assumptions C16_class_is_exact.

(* the hand model used by C17 is the code's function on the whole domain *)
Theorem C16_model_is_code : forall c, In c cells -> model_agrees c = true.
Proof. exact model_matches_graph. Qed.
Print Assumptions C16_model_is_code.

Theorem C16_partial_nonvacuous : N.eqb (N.of_nat (length (filter (fun c => negb (kf_cancel_reject c)) cells))) 21420 = true.
Proof. exact partial_nonvacuous. Qed.
Print Assumptions C16_partial_nonvacuous.
