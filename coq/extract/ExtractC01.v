(* Extraction of the codec model for C01.  ExtrOcamlBasic only; numbers stay Coq datatypes. *)
From Coq Require Extraction.
From Coq Require Import ExtrOcamlBasic.
From AF Require Import Fix.CodecRun.
Extraction Language OCaml.
Extraction "../ocaml/build/C01/model.ml" entry.
