(* C02: every frame the encoder returns, and every byte string send_msg hands to the transport,
   is accepted by the independent reference framer of Fix/Framing.v. *)
From Coq Require Import ZArith NArith List Bool Lia.
From AF Require Import Base.Sx Py.Str Py.Utf8 Fix.Codec Fix.Framing Lemmas.StrA.
Import ListNotations.
Open Scope N_scope.

(* ------------------------------------------------------------------ the two forms of the grammar *)

Lemma forallb_is_byte s : forallb is_byte s = true <-> Forall (fun c => c < 256) s.
Proof.
  rewrite forallb_forall, Forall_forall. unfold is_byte.
  split; intros H c Hc; specialize (H c Hc); now apply N.ltb_lt.
Qed.

Lemma forallb_digit ds : forallb ascii_digit ds = true <-> Forall (fun c => 48 <= c <= 57) ds.
Proof.
  rewrite forallb_forall, Forall_forall.
  split; intros H c Hc; specialize (H c Hc); now apply ascii_digit_range.
Qed.

Lemma nonempty_true s : nonempty s = true <-> s <> [].
Proof. destruct s; cbn; split; congruence. Qed.

Lemma well_framed_complete s : well_framed s -> well_framedb s = true.
Proof.
  intros (bsv & ds & body & d1 & d2 & d3 & E & Hb & Hbs & Hsoh & Hds & Hdig & Hlen & Hty & Hend
          & H1 & H2 & H3 & Hck).
  unfold well_framedb. apply forallb_is_byte in Hb. rewrite Hb. cbn [andb].
  subst s. rewrite expect_app.
  change ([1] ++ L9 ++ ds ++ [1] ++ body ++ [49; 48; 61; d1; d2; d3; 1])
    with (1 :: L9 ++ ds ++ 1 :: body ++ [49; 48; 61; d1; d2; d3; 1]).
  rewrite (take_field_app _ _ Hsoh).
  apply nonempty_true in Hbs. rewrite Hbs. cbn [andb].
  rewrite expect_app.
  apply forallb_digit in Hdig. rewrite (take_field_app _ _ (digits_no_soh _ Hdig)).
  apply nonempty_true in Hds. rewrite Hds, Hdig. cbn [andb].
  rewrite Hlen, Nat2N.id, firstn_app_exact, skipn_app_exact.
  replace (N.of_nat (length body) <=? N.of_nat (length (body ++ [49; 48; 61; d1; d2; d3; 1]))) with true
    by (symmetry; apply N.leb_le; rewrite app_length; lia).
  cbn [andb].
  assert (Hbody : body_ok body = true).
  { unfold body_ok. destruct Hty as (c & rest & -> & Hc). rewrite expect_app.
    destruct Hend as [b0 Eb]. rewrite Eb, ends_with_soh_app, andb_true_r.
    apply negb_true_iff. now apply N.eqb_neq. }
  rewrite Hbody. cbn [andb].
  change ([1] ++ L9 ++ ds ++ [1] ++ body) with (1 :: L9 ++ ds ++ 1 :: body) in Hck.
  change (L8 ++ bsv ++ [1] ++ L9 ++ ds ++ [1] ++ body) with (L8 ++ bsv ++ 1 :: L9 ++ ds ++ 1 :: body).
  unfold trailer_ok.
  apply ascii_digit_range in H1, H2, H3. rewrite H1, H2, H3, !N.eqb_refl. cbn [andb].
  apply N.eqb_eq. exact Hck.
Qed.

Lemma well_framed_sound s : well_framedb s = true -> well_framed s.
Proof.
  unfold well_framedb. intros H.
  apply andb_true_iff in H. destruct H as [Hb H].
  destruct (expect L8 s) as [s1|] eqn:E1; [|discriminate]. apply expect_inv in E1.
  destruct (take_field s1) as [[bsv s2]|] eqn:E2; [|discriminate].
  apply take_field_inv in E2. destruct E2 as [E2 Hsoh].
  apply andb_true_iff in H. destruct H as [Hbs H].
  destruct (expect L9 s2) as [s3|] eqn:E3; [|discriminate]. apply expect_inv in E3.
  destruct (take_field s3) as [[ds s4]|] eqn:E4; [|discriminate].
  apply take_field_inv in E4. destruct E4 as [E4 _].
  cbv zeta in H. rewrite !andb_true_iff in H. destruct H as [[Hds Hdig] [Hle [Hbody Htr]]].
  apply N.leb_le in Hle.
  set (n := N.to_nat (dec_value ds)) in *.
  set (body := firstn n s4) in *. set (tr := skipn n s4) in *.
  assert (Hlen : length body = n) by (apply firstn_length_le; lia).
  unfold trailer_ok in Htr.
  destruct tr as [|c1 [|c0 [|ce [|d1 [|d2 [|d3 [|z [|]]]]]]]] eqn:Etr; try discriminate.
  rewrite !andb_true_iff, !N.eqb_eq in Htr.
  destruct Htr as [[[[[[[-> ->] ->] ->] D1] D2] D3] Hck].
  exists bsv, ds, body, d1, d2, d3.
  assert (Es : s = L8 ++ bsv ++ [1] ++ L9 ++ ds ++ [1] ++ body ++ [49; 48; 61; d1; d2; d3; 1]).
  { rewrite E1, E2, E3, E4. change ([1] ++ L9 ++ ds ++ [1] ++ ?x) with (1 :: L9 ++ ds ++ 1 :: x).
    rewrite <- Etr. unfold body, tr. rewrite (firstn_skipn n s4). reflexivity. }
  split; [exact Es|]. split; [now apply forallb_is_byte|].
  split; [now apply nonempty_true|]. split; [exact Hsoh|].
  split; [now apply nonempty_true|]. split; [now apply forallb_digit|].
  split; [rewrite Hlen; unfold n; lia|].
  unfold body_ok in Hbody.
  destruct (expect L35 body) as [[|c rest]|] eqn:E5; try discriminate.
  apply expect_inv in E5. apply andb_true_iff in Hbody. destruct Hbody as [Hc Hend].
  split; [exists c, rest; split; [exact E5|]; apply negb_true_iff in Hc; now apply N.eqb_neq|].
  split; [now apply ends_with_soh_inv|].
  apply ascii_digit_range in D1, D2, D3. repeat (split; [assumption|]).
  exact Hck.
Qed.

Lemma well_framedb_iff s : well_framedb s = true <-> well_framed s.
Proof. split; [apply well_framed_sound|apply well_framed_complete]. Qed.

(* ------------------------------------------------------------------ shape of the encoder's output *)

Definition enc_body (mt b0 : str) : str := L35 ++ mt ++ [1] ++ b0 ++ [1].
Definition enc_before (bs mt b0 : str) : str :=
  L8 ++ bs ++ [1] ++ L9 ++ n_to_dec (N.of_nat (length (enc_body mt b0))) ++ [1] ++ enc_body mt b0.

Lemma encode_shape bs m sess t raw frame sess' :
  encode bs m sess t raw = Ok (frame, sess') ->
  exists b0,
    frame = enc_before bs (msg_type m) b0
            ++ [49; 48; 61] ++ fmt03 (sum_codes (enc_before bs (msg_type m) b0) mod 256) ++ [1].
Proof.
  unfold encode. destruct (select_seq m sess raw) as [[seq s']|e]; [|discriminate].
  cbn [bind]. destruct (render_body (msg_tags m)) as [rest|e]; [|discriminate].
  cbn [bind]. intros H.
  apply (f_equal (fun r => match r with Ok (f, _) => f | Exc _ => [] end)) in H.
  cbv beta iota zeta in H. rewrite <- H. clear H.
  set (b0 := join SOHs (field T49 (sender sess) :: field T56 (target sess) :: field T34 seq
                        :: field T52 t :: rest)).
  exists b0. unfold checksum.
  assert (Elen : (length (b0 ++ SOHs) + length (field T35 (msg_type m)) + 1)%nat
                 = length (enc_body (msg_type m) b0)).
  { unfold enc_body, field, SOHs, T35, L35. rewrite !app_length. cbn [length]. lia. }
  rewrite Elen.
  assert (Ebefore : join SOHs [field T8 bs; field T9 (n_to_dec (N.of_nat (length (enc_body (msg_type m) b0))));
                               field T35 (msg_type m)] ++ SOHs ++ b0 ++ SOHs
                    = enc_before bs (msg_type m) b0).
  { unfold enc_before, enc_body, field, SOHs, T8, T9, T35, L8, L9, L35. cbn [join].
    repeat (rewrite <- ?app_assoc; cbn [app]). reflexivity. }
  rewrite Ebefore. unfold field, T10, SOHs. rewrite <- !app_assoc. reflexivity.
Qed.

(* ------------------------------------------------------------------ C02 *)

Definition starts_printable (mt : str) : bool :=
  match mt with c :: _ => negb (N.eqb c 1) | [] => false end.
Definition soh_free (s : str) : bool := forallb (fun c => negb (N.eqb c 1)) s.

Lemma soh_free_not_in s : soh_free s = true -> ~ In 1 s.
Proof. unfold soh_free. rewrite forallb_forall. intros H F. specialize (H 1 F). discriminate. Qed.

(* what the encoder computes: reading its text as bytes gives a well-formed frame, provided only
   that BeginString is a proper field value, MsgType is not empty, and the text is bytes *)
Lemma encode_well_framed_bytes bs m sess t raw frame sess' :
  encode bs m sess t raw = Ok (frame, sess') ->
  nonempty bs = true -> soh_free bs = true -> starts_printable (msg_type m) = true ->
  forallb is_byte frame = true ->
  well_framedb frame = true.
Proof.
  intros He Hbs Hsoh Hmt Hb. apply well_framed_complete.
  destruct (encode_shape _ _ _ _ _ _ _ He) as [b0 Ef].
  set (mt := msg_type m) in *. set (before := enc_before bs mt b0) in *.
  assert (Hck : sum_codes before mod 256 < 256) by (apply N.mod_lt; lia).
  destruct (fmt03_spec _ Hck) as (d1 & d2 & d3 & E3 & D1 & D2 & D3 & Hv & _).
  destruct (n_to_dec_spec (N.of_nat (length (enc_body mt b0)))) as (N1 & N2 & N3).
  exists bs, (n_to_dec (N.of_nat (length (enc_body mt b0)))), (enc_body mt b0), d1, d2, d3.
  split. { rewrite Ef, E3. unfold before, enc_before. rewrite <- !app_assoc. reflexivity. }
  split; [now apply forallb_is_byte|].
  split; [now apply nonempty_true|]. split; [now apply soh_free_not_in|].
  split; [exact N1|]. split; [now apply forallb_digit|]. split; [exact N3|].
  split.
  { unfold starts_printable in Hmt. destruct mt as [|c rest]; [discriminate|].
    exists c, (rest ++ [1] ++ b0 ++ [1]). split; [reflexivity|].
    apply negb_true_iff in Hmt. now apply N.eqb_neq. }
  split. { exists (L35 ++ mt ++ [1] ++ b0). unfold enc_body. rewrite <- !app_assoc. reflexivity. }
  apply ascii_digit_range in D1, D2, D3. repeat (split; [assumption|]).
  rewrite Hv. fold (enc_before bs mt b0). fold before. now rewrite sum_codes_byte_sum.
Qed.

(* ------------------------------------------------------------------ bytes in, bytes out *)

Definition str_bytes (s : str) : bool := forallb is_byte s.

(* a predicate on tags and one on value texts, lifted to nested containers *)
Section ValueAll.
  Variables Pt Pv : str -> bool.
  Fixpoint value_all (v : value) : bool :=
    match v with
    | VStr s => Pv s
    | VErr => true
    | VGrp items =>
        forallb (forallb (fun kv : str * value => let (k, w) := kv in Pt k && value_all w)) items
    end.
  Definition container_all (c : container) : bool :=
    forallb (fun kv : str * value => let (k, w) := kv in Pt k && value_all w) c.
End ValueAll.

Definition value_bytes : value -> bool := value_all str_bytes str_bytes.
Definition container_bytes : container -> bool := container_all str_bytes str_bytes.

(* every piece of text the caller supplies is single-byte text (code points < 256) *)
Definition inputs_bytes (bs : str) (m : message) (sess : session) (t : str) : bool :=
  str_bytes bs && str_bytes (msg_type m) && str_bytes (sender sess) && str_bytes (target sess)
  && str_bytes t && container_bytes (msg_tags m).

Section value_ind2.
  Variable P : value -> Prop.
  Hypothesis HS : forall s, P (VStr s).
  Hypothesis HE : P VErr.
  Hypothesis HG : forall items, Forall (Forall (fun kv : str * value => P (snd kv))) items -> P (VGrp items).
  Fixpoint value_ind2 (v : value) : P v :=
    match v with
    | VStr s => HS s
    | VErr => HE
    | VGrp items =>
        HG items
          ((fix go (its : list (list (str * value))) : Forall (Forall (fun kv => P (snd kv))) its :=
              match its with
              | [] => Forall_nil _
              | it :: r =>
                  Forall_cons it
                    ((fix go2 (it : list (str * value)) : Forall (fun kv => P (snd kv)) it :=
                        match it with
                        | [] => Forall_nil _
                        | kv :: r2 => Forall_cons kv (value_ind2 (snd kv)) (go2 r2)
                        end) it)
                    (go r)
              end) items)
    end.
End value_ind2.

Lemma str_bytes_app a b : str_bytes (a ++ b) = str_bytes a && str_bytes b.
Proof. apply forallb_app. Qed.

Lemma digits_bytes ds : forallb ascii_digit ds = true -> str_bytes ds = true.
Proof.
  unfold str_bytes. rewrite !forallb_forall. intros H c Hc. specialize (H c Hc).
  apply ascii_digit_range in H. unfold is_byte. apply N.ltb_lt. lia.
Qed.

Lemma n_to_dec_bytes n : str_bytes (n_to_dec n) = true.
Proof. apply digits_bytes. apply n_to_dec_spec. Qed.

Lemma z_to_dec_bytes z : str_bytes (z_to_dec z) = true.
Proof.
  destruct z as [|p|p]; cbn [z_to_dec]; [reflexivity|apply n_to_dec_bytes|].
  change (45 :: n_to_dec (N.pos p)) with ([45] ++ n_to_dec (N.pos p)).
  rewrite str_bytes_app, n_to_dec_bytes. reflexivity.
Qed.

Lemma field_bytes t v : str_bytes t = true -> str_bytes v = true -> str_bytes (field t v) = true.
Proof.
  intros A B. unfold field. change (61 :: v) with ([61] ++ v). now rewrite !str_bytes_app, A, B.
Qed.

Lemma join_bytes ps : Forall (fun f => str_bytes f = true) ps -> str_bytes (join SOHs ps) = true.
Proof.
  induction 1 as [|p ps Hp Hps IH]; [reflexivity|].
  destruct ps as [|p' ps]; [exact Hp|].
  rewrite join_cons by discriminate. now rewrite !str_bytes_app, Hp, IH.
Qed.

Definition all_bytes (fs : list str) : Prop := Forall (fun f => str_bytes f = true) fs.

(* if every tag satisfies Pt and every value text Pv, every rendered field satisfies Pf *)
Section RenderAll.
  Variables Pt Pv : str -> bool.
  Variable Pf : str -> Prop.
  Hypothesis Hfield : forall t v, Pt t = true -> Pv v = true -> Pf (field t v).
  Hypothesis Hnum : forall n, Pv (n_to_dec n) = true.

  Let kvP := fun kv : str * value => let (k, w) := kv in Pt k && value_all Pt Pv w.

  Lemma render_value_all v : forall t fs,
    render_value t v = Ok fs -> Pt t = true -> value_all Pt Pv v = true -> Forall Pf fs.
  Proof.
    induction v as [s| |items IH] using value_ind2; intros t fs H Ht Hv.
    - cbn in H. inversion H. subst. constructor; [|constructor]. now apply Hfield.
    - discriminate.
    - cbn [render_value] in H. cbn [value_all] in Hv. fold kvP in Hv.
      match type of H with
      | bind (?F items) _ = _ => set (items_go := F) in *
      end.
      assert (Hgo : forall its fs', Forall (Forall (fun kv : str * value => forall t fs,
                       render_value t (snd kv) = Ok fs -> Pt t = true ->
                       value_all Pt Pv (snd kv) = true -> Forall Pf fs)) its ->
                     forallb (forallb kvP) its = true ->
                     items_go its = Ok fs' -> Forall Pf fs').
      { clear - Hfield Hnum. induction its as [|it its IHits]; intros fs' HF Hb Hr.
        - cbn in Hr. inversion Hr. constructor.
        - inversion HF as [|? ? HFit HFits]. subst. cbn [forallb] in Hb.
          apply andb_true_iff in Hb. destruct Hb as [Hbit Hbits].
          unfold items_go in Hr. cbn [bind] in Hr. fold items_go in Hr.
          match type of Hr with
          | bind (?F it) _ = _ => set (item_go := F) in *
          end.
          assert (Hit : forall it fs'', Forall (fun kv : str * value => forall t fs,
                       render_value t (snd kv) = Ok fs -> Pt t = true ->
                       value_all Pt Pv (snd kv) = true -> Forall Pf fs) it ->
                     forallb kvP it = true ->
                     item_go it = Ok fs'' -> Forall Pf fs'').
          { clear. induction it as [|[k w] it IHit]; intros fs'' HF Hb Hr.
            - cbn in Hr. inversion Hr. constructor.
            - inversion HF as [|? ? HFk HFit]. subst. cbn [forallb] in Hb. unfold kvP at 1 in Hb.
              rewrite !andb_true_iff in Hb. destruct Hb as [[Hk Hw] Hbit].
              unfold item_go in Hr. fold item_go in Hr.
              destruct (render_value k w) as [a|] eqn:Ea; [|discriminate]. cbn [bind] in Hr.
              destruct (item_go it) as [b|] eqn:Eb; [|discriminate]. cbn [bind] in Hr.
              inversion Hr. subst. apply Forall_app. split.
              + exact (HFk k a Ea Hk Hw).
              + exact (IHit b HFit Hbit eq_refl). }
          destruct (item_go it) as [a|] eqn:Ea; [|discriminate]. cbn [bind] in Hr.
          destruct (items_go its) as [b|] eqn:Eb; [|discriminate]. cbn [bind] in Hr.
          inversion Hr. subst. apply Forall_app. split.
          + exact (Hit it a HFit Hbit Ea).
          + exact (IHits b HFits Hbits eq_refl). }
      destruct (items_go items) as [fs'|] eqn:Eg; [|discriminate]. cbn [bind] in H.
      inversion H. subst. constructor.
      + apply Hfield; [exact Ht|apply Hnum].
      + exact (Hgo items fs' IH Hv Eg).
  Qed.

  Lemma render_body_all c : forall fs,
    render_body c = Ok fs -> container_all Pt Pv c = true -> Forall Pf fs.
  Proof.
    induction c as [|[k w] c IH]; intros fs H Hb.
    - cbn in H. inversion H. constructor.
    - cbn [render_body] in H. unfold container_all in Hb. cbn [forallb] in Hb.
      rewrite !andb_true_iff in Hb. destruct Hb as [[Hk Hw] Hc].
      destruct (mem_str k skip_tags); [now apply IH|].
      destruct (render_value k w) as [a|] eqn:Ea; [|discriminate]. cbn [bind] in H.
      destruct (render_body c) as [b|] eqn:Eb; [|discriminate]. cbn [bind] in H.
      inversion H. subst. apply Forall_app. split.
      + exact (render_value_all w k a Ea Hk Hw).
      + exact (IH b eq_refl Hc).
  Qed.
End RenderAll.

Lemma render_body_bytes c fs : render_body c = Ok fs -> container_bytes c = true -> all_bytes fs.
Proof.
  apply (render_body_all str_bytes str_bytes (fun f => str_bytes f = true) field_bytes n_to_dec_bytes).
Qed.

Lemma seq_of_msg_dec c z : seq_of_msg c = Ok z -> str_bytes (z_to_dec z) = true.
Proof. intros _. apply z_to_dec_bytes. Qed.

Lemma select_seq_bytes m sess raw seq s' :
  select_seq m sess raw = Ok (seq, s') -> str_bytes seq = true.
Proof.
  unfold select_seq. intros H.
  repeat match type of H with
  | (if ?b then _ else _) = _ => destruct b
  | bind ?r _ = _ => destruct r; cbn [bind] in H
  | Exc _ = Ok _ => discriminate
  | Ok (?a, _) = Ok (_, _) => inversion H; subst; apply z_to_dec_bytes
  end.
Qed.

Lemma encode_bytes bs m sess t raw frame sess' :
  encode bs m sess t raw = Ok (frame, sess') ->
  inputs_bytes bs m sess t = true -> forallb is_byte frame = true.
Proof.
  unfold encode, inputs_bytes. rewrite !andb_true_iff.
  intros H [[[[[Hbs Hmt] Hsn] Htg] Ht] Hc].
  destruct (select_seq m sess raw) as [[seq s']|e] eqn:Es; [|discriminate].
  apply select_seq_bytes in Es.
  cbn [bind] in H. destruct (render_body (msg_tags m)) as [rest|e] eqn:Er; [|discriminate].
  apply render_body_bytes in Er; [|exact Hc].
  cbn [bind] in H.
  apply (f_equal (fun r => match r with Ok (f, _) => f | Exc _ => [] end)) in H.
  cbv beta iota zeta in H. rewrite <- H. clear H.
  assert (T : forall s, str_bytes s = true -> forallb is_byte s = true) by auto.
  assert (Hb0 : str_bytes (join SOHs (field T49 (sender sess) :: field T56 (target sess)
                  :: field T34 seq :: field T52 t :: rest) ++ SOHs) = true).
  { rewrite str_bytes_app. rewrite join_bytes; [reflexivity|].
    repeat (constructor; [apply field_bytes; auto; reflexivity|]). exact Er. }
  set (b := join SOHs _ ++ SOHs) in *.
  assert (Hhd : str_bytes (join SOHs [field T8 bs; field T9 (n_to_dec (N.of_nat
                   (length b + length (field T35 (msg_type m)) + 1))); field T35 (msg_type m)]
                 ++ SOHs ++ b) = true).
  { rewrite !str_bytes_app, Hb0. rewrite join_bytes; [reflexivity|].
    repeat (constructor; [apply field_bytes; auto using n_to_dec_bytes; reflexivity|]). constructor. }
  set (fixmsg := join SOHs _ ++ SOHs ++ b) in *.
  apply T. rewrite !str_bytes_app, Hhd. cbn [andb].
  assert (Hck : checksum fixmsg < 256) by (apply N.mod_lt; lia).
  destruct (fmt03_spec _ Hck) as (d1 & d2 & d3 & E3 & D1 & D2 & D3 & _).
  rewrite field_bytes; [reflexivity|reflexivity|].
  apply digits_bytes. rewrite E3. cbn [forallb]. now rewrite D1, D2, D3.
Qed.

(* C02, full strength: single-byte inputs, a proper BeginString and a non-empty MsgType give a
   frame that is representable (wire = Some) and well formed. *)
Lemma encode_well_framed bs m sess t raw frame sess' :
  encode bs m sess t raw = Ok (frame, sess') ->
  nonempty bs = true -> soh_free bs = true -> starts_printable (msg_type m) = true ->
  inputs_bytes bs m sess t = true ->
  exists w, wire frame = Some w /\ well_framedb w = true.
Proof.
  intros He Hbs Hsoh Hmt Hin. pose proof (encode_bytes _ _ _ _ _ _ _ He Hin) as Hb.
  exists frame. split.
  - unfold wire, latin1. unfold is_byte in Hb. now rewrite Hb.
  - now apply (encode_well_framed_bytes bs m sess t raw frame sess').
Qed.

(* the refusal: text that is not single-byte is never put on the wire *)
Lemma wire_refuses frame : forallb is_byte frame = false -> wire frame = None.
Proof. unfold wire, latin1, is_byte. intros ->. reflexivity. Qed.

Lemma wire_some frame w : wire frame = Some w -> w = frame /\ forallb is_byte frame = true.
Proof.
  unfold wire, latin1, is_byte. destruct (forallb _ frame); [|discriminate].
  intros H. inversion H. auto.
Qed.

(* whatever reaches the transport is well formed *)
Lemma wire_well_framed bs m sess t raw frame sess' w :
  encode bs m sess t raw = Ok (frame, sess') ->
  nonempty bs = true -> soh_free bs = true -> starts_printable (msg_type m) = true ->
  wire frame = Some w -> well_framedb w = true.
Proof.
  intros He Hbs Hsoh Hmt Hw. apply wire_some in Hw. destruct Hw as [-> Hb].
  now apply (encode_well_framed_bytes bs m sess t raw frame sess').
Qed.

(* ------------------------------------------------------------------ witnesses *)

Definition FIX44 : str := [70; 73; 88; 46; 52; 46; 52].
Definition ex_sess : session := mkSession [83] [84] 5%Z.                  (* S -> T, next 5 *)
Definition ex_time : str := [50; 48; 50; 51; 48; 57; 49; 57; 45; 48; 55; 58; 49; 51; 58; 50; 54; 46; 56; 48; 56].

(* AllocationInstruction with NoAllocs -> NoNestedPartyIDs -> NoNestedPartySubIDs, two items *)
Definition ex_nested : message :=
  mkMsg [74]
    [([55; 48], VStr [97; 49]);
     ([55; 56], VGrp [[([55; 57], VStr [65]); ([56; 48], VStr [49]);
                       ([53; 51; 57], VGrp [[([53; 50; 52], VStr [80]);
                                             ([56; 48; 52], VGrp [[([53; 52; 53], VStr [115]); ([56; 48; 53], VStr [49])]])]])];
                      [([55; 57], VStr [66; 233]); ([56; 48], VStr [50])]])].

Lemma ex_nested_hyps :
  nonempty FIX44 = true /\ soh_free FIX44 = true /\ starts_printable (msg_type ex_nested) = true
  /\ inputs_bytes FIX44 ex_nested ex_sess ex_time = true
  /\ exists frame sess', encode FIX44 ex_nested ex_sess ex_time false = Ok (frame, sess')
       /\ (length frame = 130)%nat /\ wire frame = Some frame /\ well_framedb frame = true.
Proof.
  repeat (split; [vm_compute; reflexivity|]).
  destruct (encode FIX44 ex_nested ex_sess ex_time false) as [[frame sess']|] eqn:E;
    [|vm_compute in E; discriminate].
  exists frame, sess'. split; [reflexivity|].
  vm_compute in E. inversion E. subst. clear E.
  split; [vm_compute; reflexivity|]. split; vm_compute; reflexivity.
Qed.

(* SOH inside a value does not disturb the length-delimited grammar *)
Definition ex_soh_value : message := mkMsg [68] [([53; 56], VStr [104; 1; 49; 48; 61; 1])].
Lemma ex_soh_value_ok :
  exists frame sess', encode FIX44 ex_soh_value ex_sess ex_time false = Ok (frame, sess')
    /\ well_framedb frame = true.
Proof.
  destruct (encode FIX44 ex_soh_value ex_sess ex_time false) as [[frame sess']|] eqn:E;
    [|vm_compute in E; discriminate].
  exists frame, sess'. split; [reflexivity|]. vm_compute in E. inversion E. vm_compute. reflexivity.
Qed.

(* forced hypothesis "MsgType is not empty": without it the encoder emits an ill-formed frame *)
Definition ex_empty_type : message := mkMsg [] [([53; 56], VStr [104; 105])].
Lemma empty_msgtype_refuted :
  exists m frame sess' w,
    inputs_bytes FIX44 m ex_sess ex_time = true
    /\ encode FIX44 m ex_sess ex_time false = Ok (frame, sess')
    /\ wire frame = Some w /\ well_framedb w = false.
Proof.
  exists ex_empty_type.
  destruct (encode FIX44 ex_empty_type ex_sess ex_time false) as [[frame sess']|] eqn:E;
    [|vm_compute in E; discriminate].
  exists frame, sess', frame. split; [vm_compute; reflexivity|]. split; [reflexivity|].
  vm_compute in E. inversion E. subst. split; vm_compute; reflexivity.
Qed.

(* the repaired defect D9: transmitting the same text as UTF-8 (what send_msg did before) gives a
   frame whose BodyLength and CheckSum are wrong as soon as one code point is >= 128 *)
Definition ex_latin : message := mkMsg [68] [([53; 56], VStr [104; 233])].
Lemma utf8_would_break :
  exists frame sess' w,
    encode FIX44 ex_latin ex_sess ex_time false = Ok (frame, sess')
    /\ wire frame = Some frame /\ well_framedb frame = true
    /\ utf8 frame = Some w /\ well_framedb w = false.
Proof.
  destruct (encode FIX44 ex_latin ex_sess ex_time false) as [[frame sess']|] eqn:E;
    [|vm_compute in E; discriminate].
  destruct (utf8 frame) as [w|] eqn:U.
  - exists frame, sess', w. split; [reflexivity|].
    vm_compute in E. inversion E. subst. clear E.
    vm_compute in U. inversion U. subst. clear U.
    repeat split; vm_compute; reflexivity.
  - vm_compute in E. inversion E. subst. vm_compute in U. discriminate.
Qed.

(* a code point above 255 is refused at the transport *)
Definition ex_wide : message := mkMsg [68] [([53; 56], VStr [104; 8364])].
Lemma wide_refused :
  exists frame sess', encode FIX44 ex_wide ex_sess ex_time false = Ok (frame, sess')
    /\ wire frame = None.
Proof.
  destruct (encode FIX44 ex_wide ex_sess ex_time false) as [[frame sess']|] eqn:E;
    [|vm_compute in E; discriminate].
  exists frame, sess'. split; [reflexivity|]. vm_compute in E. inversion E. vm_compute. reflexivity.
Qed.

(* ------------------------------------------------------------------ field structure *)

Definition tag_okb (t : str) : bool :=
  match t with
  | c :: t' => negb (N.eqb c 1) && negb (N.eqb c 61) && soh_free t'
  | [] => false
  end.

(* tags are non-empty, SOH-free and do not start with "="; every other piece of text is SOH-free *)
Definition inputs_fields_ok (bs : str) (m : message) (sess : session) (t : str) : bool :=
  soh_free bs && soh_free (msg_type m) && soh_free (sender sess) && soh_free (target sess)
  && soh_free t && container_all tag_okb soh_free (msg_tags m).

Definition fld_okb (f : str) : bool :=
  match f with
  | c :: w => negb (N.eqb c 1) && negb (N.eqb c 61) && soh_free w && existsb (N.eqb 61) w
  | [] => false
  end.

Lemma soh_free_app a b : soh_free (a ++ b) = soh_free a && soh_free b.
Proof. apply forallb_app. Qed.

Lemma field_fld_ok t v : tag_okb t = true -> soh_free v = true -> fld_okb (field t v) = true.
Proof.
  unfold tag_okb, field. destruct t as [|c t']; [discriminate|]. rewrite !andb_true_iff.
  intros [[A B] C] D. cbn [app fld_okb]. rewrite A, B. cbn [andb].
  change (61 :: v) with ([61] ++ v). rewrite !soh_free_app, C, D. cbn [soh_free forallb N.eqb Pos.eqb negb andb].
  rewrite existsb_app. cbn. now rewrite orb_true_r.
Qed.

Lemma digits_soh_free ds : forallb ascii_digit ds = true -> soh_free ds = true.
Proof.
  unfold soh_free. rewrite !forallb_forall. intros H c Hc. specialize (H c Hc).
  apply ascii_digit_range in H. apply negb_true_iff. apply N.eqb_neq. lia.
Qed.

Lemma n_to_dec_soh_free n : soh_free (n_to_dec n) = true.
Proof. apply digits_soh_free. apply n_to_dec_spec. Qed.

Lemma z_to_dec_soh_free z : soh_free (z_to_dec z) = true.
Proof.
  destruct z as [|p|p]; cbn [z_to_dec]; [reflexivity|apply n_to_dec_soh_free|].
  change (45 :: n_to_dec (N.pos p)) with ([45] ++ n_to_dec (N.pos p)).
  rewrite soh_free_app, n_to_dec_soh_free. reflexivity.
Qed.

Lemma scan_value v rest : soh_free v = true ->
  fields_scan InValue (v ++ 1 :: rest) = fields_scan AtStart rest.
Proof.
  induction v as [|c v IH]; [reflexivity|]. cbn [soh_free forallb]. rewrite andb_true_iff.
  intros [A B]. cbn [app fields_scan]. apply negb_true_iff in A. rewrite A. now apply IH.
Qed.

Lemma scan_tag w rest : soh_free w = true -> existsb (N.eqb 61) w = true ->
  fields_scan InTag (w ++ 1 :: rest) = fields_scan AtStart rest.
Proof.
  induction w as [|c w IH]; [discriminate|]. cbn [soh_free forallb existsb]. rewrite andb_true_iff.
  intros [A B] E. cbn [app fields_scan]. apply negb_true_iff in A. rewrite A.
  destruct (N.eqb c 61) eqn:E61.
  - now apply scan_value.
  - rewrite N.eqb_sym, E61 in E. cbn [orb] in E. now apply IH.
Qed.

Lemma scan_field f rest : fld_okb f = true ->
  fields_scan AtStart (f ++ 1 :: rest) = fields_scan AtStart rest.
Proof.
  unfold fld_okb. destruct f as [|c w]; [discriminate|]. rewrite !andb_true_iff.
  intros [[[A B] C] D]. cbn [app fields_scan]. apply negb_true_iff in A, B. rewrite A, B. cbn [orb].
  now apply scan_tag.
Qed.

(* SOH-terminated concatenation *)
Definition term (fs : list str) : str := flat_map (fun f => f ++ SOHs) fs.

Lemma term_app a b : term (a ++ b) = term a ++ term b.
Proof. apply flat_map_app. Qed.

Lemma join_term fs : fs <> [] -> join SOHs fs ++ SOHs = term fs.
Proof.
  induction fs as [|f fs IH]; [congruence|]. intros _. destruct fs as [|g fs].
  - cbn. now rewrite app_nil_r.
  - rewrite join_cons by discriminate. change (term (f :: g :: fs)) with ((f ++ SOHs) ++ term (g :: fs)).
    rewrite <- IH by discriminate. now rewrite <- !app_assoc.
Qed.

Lemma scan_term fs : Forall (fun f => fld_okb f = true) fs -> fields_scan AtStart (term fs) = true.
Proof.
  induction 1 as [|f fs Hf _ IH]; [reflexivity|].
  change (term (f :: fs)) with ((f ++ SOHs) ++ term fs). rewrite <- app_assoc.
  change (SOHs ++ term fs) with (1 :: term fs). now rewrite scan_field.
Qed.

Lemma select_seq_dec m sess raw seq s' :
  select_seq m sess raw = Ok (seq, s') -> exists z, seq = z_to_dec z.
Proof.
  unfold select_seq. intros H.
  repeat match type of H with
  | (if ?b then _ else _) = _ => destruct b
  | bind ?r _ = _ => destruct r; cbn [bind] in H
  | Exc _ = Ok _ => discriminate
  | Ok (?a, _) = Ok (_, _) => inversion H; subst; eexists; reflexivity
  end.
Qed.

(* the frame is the SOH-terminated list of its fields *)
Lemma encode_fields bs m sess t raw frame sess' :
  encode bs m sess t raw = Ok (frame, sess') ->
  exists z rest blen ck,
    render_body (msg_tags m) = Ok rest /\ ck < 256 /\
    frame = term ([field T8 bs; field T9 (n_to_dec blen); field T35 (msg_type m)]
                  ++ [field T49 (sender sess); field T56 (target sess); field T34 (z_to_dec z); field T52 t]
                  ++ rest ++ [field T10 (fmt03 ck)]).
Proof.
  unfold encode. destruct (select_seq m sess raw) as [[seq s']|e] eqn:Es; [|discriminate].
  apply select_seq_dec in Es. destruct Es as [z ->].
  cbn [bind]. destruct (render_body (msg_tags m)) as [rest|e]; [|discriminate].
  cbn [bind]. intros H.
  apply (f_equal (fun r => match r with Ok (f, _) => f | Exc _ => [] end)) in H.
  cbv beta iota zeta in H. rewrite <- H. clear H.
  set (fields := field T49 (sender sess) :: field T56 (target sess) :: field T34 (z_to_dec z)
                 :: field T52 t :: rest).
  set (blen := N.of_nat (length (join SOHs fields ++ SOHs) + length (field T35 (msg_type m)) + 1)).
  set (header := [field T8 bs; field T9 (n_to_dec blen); field T35 (msg_type m)]).
  set (fixmsg := join SOHs header ++ SOHs ++ join SOHs fields ++ SOHs).
  exists z, rest, blen, (checksum fixmsg). split; [reflexivity|]. split; [apply N.mod_lt; lia|].
  change ([field T49 (sender sess); field T56 (target sess); field T34 (z_to_dec z); field T52 t]
          ++ rest ++ [field T10 (fmt03 (checksum fixmsg))])
    with (fields ++ [field T10 (fmt03 (checksum fixmsg))]).
  fold header. rewrite !term_app.
  rewrite <- (join_term header) by discriminate.
  rewrite <- (join_term fields) by discriminate.
  rewrite <- (join_term [field T10 (fmt03 (checksum fixmsg))]) by discriminate.
  unfold fixmsg. cbn [join]. rewrite <- !app_assoc. reflexivity.
Qed.

Lemma encode_fields_scan bs m sess t raw frame sess' :
  encode bs m sess t raw = Ok (frame, sess') ->
  inputs_fields_ok bs m sess t = true -> fields_scan AtStart frame = true.
Proof.
  intros He Hin. destruct (encode_fields _ _ _ _ _ _ _ He) as (z & rest & blen & ck & Er & Hck & ->).
  unfold inputs_fields_ok in Hin. rewrite !andb_true_iff in Hin.
  destruct Hin as [[[[[Hbs Hmt] Hsn] Htg] Ht] Hc].
  apply scan_term.
  apply Forall_app; split; [|apply Forall_app; split; [|apply Forall_app; split]].
  - repeat (constructor; [apply field_fld_ok; auto using n_to_dec_soh_free; reflexivity|]). constructor.
  - repeat (constructor; [apply field_fld_ok; auto using z_to_dec_soh_free; reflexivity|]). constructor.
  - exact (render_body_all tag_okb soh_free (fun f => fld_okb f = true) field_fld_ok n_to_dec_soh_free
             _ _ Er Hc).
  - constructor; [|constructor]. apply field_fld_ok; [reflexivity|].
    destruct (fmt03_spec _ Hck) as (d1 & d2 & d3 & E3 & D1 & D2 & D3 & _).
    apply digits_soh_free. rewrite E3. cbn [forallb]. now rewrite D1, D2, D3.
Qed.

(* C02 with field structure: SOH-free single-byte inputs with proper tags give a frame that a
   SOH-splitting FIX parser accepts as well *)
Lemma encode_well_framed_fields bs m sess t raw frame sess' :
  encode bs m sess t raw = Ok (frame, sess') ->
  nonempty bs = true -> nonempty (msg_type m) = true ->
  inputs_bytes bs m sess t = true -> inputs_fields_ok bs m sess t = true ->
  exists w, wire frame = Some w /\ well_framed_fieldsb w = true.
Proof.
  intros He Hbs Hmt Hb Hf.
  assert (Hsoh : soh_free bs = true /\ soh_free (msg_type m) = true).
  { unfold inputs_fields_ok in Hf. rewrite !andb_true_iff in Hf. tauto. }
  destruct Hsoh as [Hs1 Hs2].
  assert (Hsp : starts_printable (msg_type m) = true).
  { destruct (msg_type m) as [|c r]; [discriminate|]. cbn [soh_free forallb] in Hs2.
    apply andb_true_iff in Hs2. cbn. tauto. }
  destruct (encode_well_framed _ _ _ _ _ _ _ He Hbs Hs1 Hsp Hb) as (w & Hw & Hwf).
  exists w. split; [exact Hw|]. unfold well_framed_fieldsb. rewrite Hwf. cbn [andb].
  apply wire_some in Hw. destruct Hw as [-> _]. eapply encode_fields_scan; eauto.
Qed.

(* the hypothesis is necessary: a value containing SOH is encoded and breaks the field structure *)
Lemma soh_in_value_breaks_fields :
  exists frame sess', encode FIX44 ex_soh_value ex_sess ex_time false = Ok (frame, sess')
    /\ inputs_bytes FIX44 ex_soh_value ex_sess ex_time = true
    /\ inputs_fields_ok FIX44 ex_soh_value ex_sess ex_time = false
    /\ well_framedb frame = true /\ well_framed_fieldsb frame = false.
Proof.
  destruct (encode FIX44 ex_soh_value ex_sess ex_time false) as [[frame sess']|] eqn:E;
    [|vm_compute in E; discriminate].
  exists frame, sess'. split; [reflexivity|]. vm_compute in E. inversion E.
  repeat split; vm_compute; reflexivity.
Qed.

Lemma ex_nested_fields :
  inputs_fields_ok FIX44 ex_nested ex_sess ex_time = true
  /\ exists frame sess', encode FIX44 ex_nested ex_sess ex_time false = Ok (frame, sess')
       /\ well_framed_fieldsb frame = true.
Proof.
  split; [vm_compute; reflexivity|].
  destruct (encode FIX44 ex_nested ex_sess ex_time false) as [[frame sess']|] eqn:E;
    [|vm_compute in E; discriminate].
  exists frame, sess'. split; [reflexivity|]. vm_compute in E. inversion E. vm_compute. reflexivity.
Qed.
