(* C13 - the journal is a faithful per-session, per-direction message store.
   Theorems only (proofs in AF.Lemmas.JournalL / JournalRunL).  `lookup t sid dir n` and
   `counter t sid` are the abstract map and counters read off the SQL tables of the model
   Fix/Journal.v; `wf` (unique primary keys, session ids 1..n, unique CompID pairs) holds in
   every reachable state (C13_reachable_wf), so the hypotheses below are always met. *)
From Coq Require Import ZArith NArith List Bool Sorting.Sorted.
From AF Require Import Base.Sx Py.Str Fix.Journal Fix.JournalRun Lemmas.JournalL Lemmas.JournalRunL.
Import ListNotations.
Open Scope Z_scope.

(* every state reachable by any operation sequence, including crash/close + reopen, is well formed *)
Theorem C13_reachable_wf : forall ops, db_wf (r_db (run_state ops)).
Proof. exact reachable_wf. Qed.
Print Assumptions C13_reachable_wf.

(* storing number n under a free key: succeeds, commits, and the tables become persist_tables *)
Theorem C13_persist_new : forall d msg s dir n,
  find_seq_no msg = Some n -> lookup (cur d) (key s) dir n = None ->
  persist_msg msg s dir d =
  (mkDb (persist_tables (cur d) n (key s) dir msg) (persist_tables (cur d) n (key s) dir msg) false, None).
Proof. exact persist_new. Qed.
Print Assumptions C13_persist_new.

(* ... whose map is the old map plus exactly that entry ... *)
Theorem C13_persist_map : forall t n sid dir msg sid' dir' n',
  lookup t sid dir n = None ->
  lookup (persist_tables t n sid dir msg) sid' dir' n' =
  if (n' =? n) && (sid' =? sid) && (dir' =? dir) then Some msg else lookup t sid' dir' n'.
Proof. exact lookup_persist_tables. Qed.
Print Assumptions C13_persist_map.

(* ... and whose counters change only in that session and direction: stored = n, so next = n + 1 *)
Theorem C13_persist_counter : forall t n sid dir msg sid',
  counter (persist_tables t n sid dir msg) sid' =
  option_map (fun c => if sid' =? sid then (if dir =? OUTBOUND then (n, snd c) else (fst c, n)) else c)
             (counter t sid').
Proof. exact counter_persist_tables. Qed.
Print Assumptions C13_persist_counter.

(* storing a number twice fails with the duplicate error and changes nothing *)
Theorem C13_persist_duplicate : forall d msg s dir n old,
  find_seq_no msg = Some n -> lookup (cur d) (key s) dir n = Some old ->
  persist_msg msg s dir d = (mkDb (committed d) (cur d) true, Some EDuplicateSeqNo).
Proof. exact persist_dup. Qed.
Print Assumptions C13_persist_duplicate.

Theorem C13_persist_malformed : forall d msg s dir,
  find_seq_no msg = None -> persist_msg msg s dir d = (d, Some EFIXMessage).
Proof. exact persist_malformed. Qed.
Print Assumptions C13_persist_malformed.

(* a range query returns exactly the stored entries of that session and direction whose number
   is in [lo, hi], unchanged, in strictly ascending number order *)
Theorem C13_range_query : forall s dir lo hi d,
  wf (cur d) ->
  let rows := select_range (cur d) (key s) dir lo hi in
  recover_messages s dir lo hi d = map m_msg rows
  /\ StronglySorted seq_lt rows
  /\ (forall r, In r rows -> lo <= m_seq r <= hi /\ lookup (cur d) (key s) dir (m_seq r) = Some (m_msg r))
  /\ (forall n m, lo <= n <= hi -> lookup (cur d) (key s) dir n = Some m -> In (mkM n (key s) dir m) rows).
Proof. exact recover_messages_spec. Qed.
Print Assumptions C13_range_query.

(* setting the counters removes exactly the messages numbered at or above the new values *)
Theorem C13_set_seq_num : forall d s o i,
  0 < o -> 0 < i ->
  set_seq_num s (Some o) (Some i) d =
  (mkDb (set_tables (cur d) (key s) o i) (set_tables (cur d) (key s) o i) false,
   mkSess (key s) (target s) (sender s) o i, None).
Proof. exact set_seq_num_both. Qed.
Print Assumptions C13_set_seq_num.

Theorem C13_set_seq_num_map : forall t sid o i sid' dir' n,
  wf t ->
  lookup (set_tables t sid o i) sid' dir' n =
  if (sid' =? sid) && (((dir' =? INBOUND) && (i <=? n)) || ((dir' =? OUTBOUND) && (o <=? n)))
  then None else lookup t sid' dir' n.
Proof. exact lookup_set_tables. Qed.
Print Assumptions C13_set_seq_num_map.

Theorem C13_set_seq_num_counter : forall t sid o i sid',
  counter (set_tables t sid o i) sid' =
  option_map (fun c => if sid' =? sid then (o - 1, i - 1) else c) (counter t sid').
Proof. exact counter_set_tables. Qed.
Print Assumptions C13_set_seq_num_counter.

(* loading a session by CompIDs and listing all sessions report the same next numbers *)
Theorem C13_load_consistent : forall d tg sd,
  has_session (cur d) tg sd = true ->
  exists r, In r (t_sessions (cur d)) /\ s_target r = tg /\ s_sender r = sd
            /\ create_or_load tg sd d = (mkDb (committed d) (cur d) true, Some (session_of_row r))
            /\ In (session_of_row r) (sessions d).
Proof. exact create_or_load_existing. Qed.
Print Assumptions C13_load_consistent.

Theorem C13_create_new : forall d tg sd,
  has_session (cur d) tg sd = false ->
  let t' := mkT (t_sessions (cur d) ++ [mkS (next_sid (cur d)) tg sd 0 0]) (t_messages (cur d)) in
  create_or_load tg sd d = (mkDb t' t' false, Some (mkSess (next_sid (cur d)) tg sd 1 1))
  /\ In (mkSess (next_sid (cur d)) tg sd 1 1) (sessions (mkDb t' t' false)).
Proof. exact create_or_load_new. Qed.
Print Assumptions C13_create_new.

(* mirror-image CompID pairs are different sessions *)
Theorem C13_mirror_distinct : forall t r1 r2 a b,
  wf t -> In r1 (t_sessions t) -> In r2 (t_sessions t) ->
  comp_key r1 = (a, b) -> comp_key r2 = (b, a) -> a <> b -> s_id r1 <> s_id r2.
Proof. exact mirror_distinct. Qed.
Print Assumptions C13_mirror_distinct.

(* non-vacuity: a concrete reachable journal with two sessions and stored messages meets the hypotheses *)
Example C13_nonvacuous :
  let ops := [OCreate [65%N] [66%N]; OCreate [66%N] [65%N];
              OPersist 0 1 [1; 51; 52; 61; 53; 1]%N; OPersist 1 0 [1; 51; 52; 61; 55; 1]%N] in
  let t := cur (r_db (run_state ops)) in
  lookup t 1 1 5 = Some [1; 51; 52; 61; 53; 1]%N /\ lookup t 2 0 7 = Some [1; 51; 52; 61; 55; 1]%N
  /\ lookup t 1 0 5 = None /\ counter t 1 = Some (5, 0) /\ counter t 2 = Some (0, 7).
Proof. vm_compute. repeat split. Qed.
Print Assumptions C13_nonvacuous.
