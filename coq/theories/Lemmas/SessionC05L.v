(* C05 - outbound messages are numbered consecutively and journaled under that number. *)
From Coq Require Import ZArith NArith List Bool Lia ZifyBool.
From AF Require Import Base.Sx Py.Str Fix.Session Lemmas.SessionL Lemmas.SessionC04L Lemmas.SessionC11L.
From Coq Require String.
Import String.StringSyntax.
Import ListNotations.
Open Scope Z_scope.

(* ------------------------------------------------------------------ the invariant *)

Definition alive (w : world) : Prop := ST_DISC_BROKEN < st w.

(* stored outbound counter = next number - 1; every journaled outbound number is below the next number;
   a connection that is up has its writer *)
Definition Out_inv (w : world) : Prop :=
  j_sout (jr w) + 1 = nout w
  /\ Forall (fun r => fst r < nout w) (j_out (jr w))
  /\ (alive w -> wr w = true).

Fixpoint number_from (n : Z) (l : list msg) : list (Z * msg) :=
  match l with [] => [] | m :: l' => (n, m) :: number_from (n + 1) l' end.

Lemma number_from_app n a b :
  number_from n (a ++ b) = number_from n a ++ number_from (n + Z.of_nat (length a)) b.
Proof.
  revert n. induction a as [|x a IH]; intros n; cbn [app number_from length].
  - now rewrite Z.add_0_r.
  - rewrite IH. do 3 f_equal. lia.
Qed.

Definition numbered (p : Z * msg) : Prop := get T34 (mtags (snd p)) = Some (z_to_dec (fst p)).

(* the NEW frames among the written ones: everything but the replies to a ResendRequest (PossDupFlag = Y
   retransmissions and SequenceReset-GapFill), which are numbered by themselves and not journaled *)
Definition news (l : list event) : list msg := filter (fun wm => negb (skip_journal wm)) (wires l).

Lemma news_app a b : news (a ++ b) = news a ++ news b.
Proof. unfold news. now rewrite wires_app, filter_app. Qed.

Lemma news_nil l : wires l = [] -> news l = [].
Proof. unfold news. now intros ->. Qed.

(* what one computation did to the outbound side: the new frames it wrote carry next_num_out, +1, ... and are
   exactly the rows appended to the journal, under those numbers; the invariant holds again *)
Record OutStep (w : world) {A} (r : res A) : Prop := mkOS {
  os_inv : Out_inv (rw r);
  os_rows : j_out (jr (rw r)) = j_out (jr w) ++ number_from (nout w) (news (re r));
  os_nout : nout (rw r) = nout w + Z.of_nat (length (news (re r)));
  os_num : Forall numbered (number_from (nout w) (news (re r)))
}.

Definition in_range (w : world) {A} (r : res A) : Prop := I64MIN <= nout w /\ nout (rw r) <= I64MAX + 1.

Definition outok {A} (c : M A) : Prop := forall w, Out_inv w -> in_range w (c w) -> OutStep w (c w).
Definition outokA {A} (c : M A) : Prop := forall w, Out_inv w -> alive w -> in_range w (c w) -> OutStep w (c w).
Definition mono {A} (c : M A) : Prop := forall w, nout w <= nout (rw (c w)).

Lemma outok_A {A} (c : M A) : outok c -> outokA c.
Proof. intros H w Hi _ Hr. apply H; assumption. Qed.

(* a computation that writes nothing and touches neither the counters, the journal, the state nor the writer *)
Lemma outok_quiet {A} (c : M A) :
  pres nout c -> pres (fun w => j_sout (jr w)) c -> pres (fun w => j_out (jr w)) c ->
  pres st c -> pres wr c -> allev not_wire c -> outok c.
Proof.
  intros H1 H2 H3 H4 H5 H6 w [I1 [I2 I3]] _.
  pose proof (news_nil _ (wires_nil _ (H6 w))) as Hw.
  constructor; rewrite ?Hw; cbn [number_from length Z.of_nat]; rewrite ?app_nil_r, ?Z.add_0_r; auto.
  unfold Out_inv, alive. rewrite (H1 w), (H2 w), (H3 w), (H4 w), (H5 w). auto.
Qed.

Lemma outok_ret {A} (a : A) : outok (ret a).
Proof. apply outok_quiet; try (intro; reflexivity). intro; constructor. Qed.
Lemma outok_raise {A} x : outok (@raise A x).
Proof. apply outok_quiet; try (intro; reflexivity). intro; constructor. Qed.
Lemma outok_getw : outok getw.
Proof. apply outok_quiet; try (intro; reflexivity). intro; constructor. Qed.
Lemma outok_lift {A} (v : A + exn) : outok (lift v).
Proof. destruct v; [apply outok_ret|apply outok_raise]. Qed.
Lemma outok_emit e : not_wire e -> outok (emit e).
Proof. intros H. apply outok_quiet; try (intro; reflexivity). intro; cbn. auto. Qed.

Lemma mono_ret {A} (a : A) : mono (ret a). Proof. intro; cbn; lia. Qed.
Lemma mono_raise {A} x : mono (@raise A x). Proof. intro; cbn; lia. Qed.
Lemma mono_getw : mono getw. Proof. intro; cbn; lia. Qed.
Lemma mono_emit e : mono (emit e). Proof. intro; cbn; lia. Qed.
Lemma mono_lift {A} (v : A + exn) : mono (lift v). Proof. destruct v; intro; cbn; lia. Qed.
Lemma mono_pres {A} (c : M A) : pres nout c -> mono c.
Proof. intros H w. rewrite (H w). lia. Qed.
Lemma mono_bind {A B} (c : M A) (k : A -> M B) : mono c -> (forall a, mono (k a)) -> mono (bind c k).
Proof.
  intros Hc Hk w. rewrite bind_unfold. destruct (rv (c w)); cbn [rw]; [|apply Hc].
  specialize (Hc w). specialize (Hk a (rw (c w))). lia.
Qed.
Lemma mono_try {A} (c : M A) : mono c -> mono (try_ c).
Proof. intros H w. unfold try_. destruct (rv (c w)); cbn; apply H. Qed.

Lemma outstep_compose {A B} w (r1 : res A) (r2 : res B) :
  OutStep w r1 -> OutStep (rw r1) r2 ->
  OutStep w (mkR (rv r2) (rw r2) (re r1 ++ re r2)).
Proof.
  intros [A1 A2 A3 A4] [B1 B2 B3 B4]. constructor; cbn [rv rw re].
  - exact B1.
  - rewrite B2, A2, news_app, number_from_app, <- app_assoc, A3. reflexivity.
  - rewrite B3, A3, news_app, app_length, Nat2Z.inj_add. lia.
  - rewrite news_app, number_from_app. apply Forall_app. split; [exact A4|]. rewrite <- A3. exact B4.
Qed.

Lemma outok_bind {A B} (c : M A) (k : A -> M B) :
  outok c -> (forall a, outok (k a)) -> (forall a, mono (k a)) -> outok (bind c k).
Proof.
  intros Hc Hk Hm w Hi [Hlo Hhi]. rewrite bind_unfold in *.
  destruct (rv (c w)) eqn:E; cbn [rv rw re] in *.
  - assert (S1 : OutStep w (c w)).
    { apply Hc; [exact Hi|]. split; [exact Hlo|]. specialize (Hm a (rw (c w))). lia. }
    assert (S2 : OutStep (rw (c w)) (k a (rw (c w)))).
    { apply Hk; [apply S1|]. split; [|exact Hhi]. rewrite (os_nout _ _ S1). lia. }
    apply (outstep_compose w (c w) (k a (rw (c w))) S1 S2).
  - assert (S1 : OutStep w (c w)) by (apply Hc; [exact Hi|split; assumption]).
    destruct S1 as [A1 A2 A3 A4]. constructor; cbn [rv rw re]; auto.
Qed.

(* the same when the continuation needs a live connection and the first part keeps it alive *)
Lemma outokA_bind {A B} (c : M A) (k : A -> M B) :
  outokA c -> (forall a, outokA (k a)) -> (forall a, mono (k a)) -> keeps alive c -> outokA (bind c k).
Proof.
  intros Hc Hk Hm Hal w Hi Ha [Hlo Hhi]. rewrite bind_unfold in *.
  destruct (rv (c w)) eqn:E; cbn [rv rw re] in *.
  - assert (S1 : OutStep w (c w)).
    { apply Hc; [exact Hi|exact Ha|]. split; [exact Hlo|]. specialize (Hm a (rw (c w))). lia. }
    assert (S2 : OutStep (rw (c w)) (k a (rw (c w)))).
    { apply Hk; [apply S1|apply Hal; exact Ha|]. split; [|exact Hhi]. rewrite (os_nout _ _ S1). lia. }
    apply (outstep_compose w (c w) (k a (rw (c w))) S1 S2).
  - assert (S1 : OutStep w (c w)) by (apply Hc; [exact Hi|exact Ha|split; assumption]).
    destruct S1 as [A1 A2 A3 A4]. constructor; cbn [rv rw re]; auto.
Qed.

Lemma outok_try {A} (c : M A) : outok c -> outok (try_ c).
Proof.
  intros H w Hi Hr. unfold try_ in *.
  assert (S : OutStep w (c w)).
  { apply H; [exact Hi|]. destruct Hr as [H1 H2]. split; [exact H1|]. destruct (rv (c w)); exact H2. }
  destruct S as [A1 A2 A3 A4]. destruct (rv (c w)); constructor; cbn [rv rw re]; auto.
Qed.

(* ------------------------------------------------------------------ send_msg of a NEW message *)

Lemma has_key_below n rows : Forall (fun r : Z * msg => fst r < n) rows -> has_key n rows = false.
Proof.
  unfold has_key. induction 1 as [|r rows Hr _ IH]; cbn [existsb]; [reflexivity|]. rewrite IH. destruct (fst r =? n) eqn:E; [lia|reflexivity].
Qed.

Definition sent_world (c : cfg) (m : msg) (w : world) : world :=
  set_jsout (nout w)
    (set_jout (j_out (jr w) ++ [(nout w, mkMsg (mtype m) (wire_tags c (nout w) m))]) (set_nout (nout w + 1) w)).

(* a new message is never one of the unjournaled kinds *)
Lemma raw_false_skip_false m : raw_seq m = false -> skip_journal m = false.
Proof.
  unfold raw_seq, skip_journal. destruct (mkind m); try discriminate;
    destruct (get T43 (mtags m)); intros H; rewrite ?H; reflexivity.
Qed.

Lemma get_filter_keep (t : str) (p : tagv -> bool) l :
  (forall v, p (t, v) = true) -> (forall k v, str_eqb k t = true -> p (k, v) = true) ->
  get t (filter p l) = get t l.
Proof.
  intros Hp Hk. induction l as [|[k v] l IH]; [reflexivity|]. cbn [filter get].
  destruct (str_eqb k t) eqn:E.
  - rewrite (Hk k v E). cbn [get]. now rewrite E.
  - destruct (p (k, v)); cbn [get]; rewrite ?E; exact IH.
Qed.

(* the frame on the wire has the PossDupFlag / GapFillFlag / type of the message: same journaling decision *)
Lemma skip_journal_wire c n m : skip_journal (mkMsg (mtype m) (wire_tags c n m)) = skip_journal m.
Proof.
  unfold skip_journal, mkind. cbn [mtype mtags]. unfold wire_tags.
  assert (H43 : get T43 ([(T49, c_sender c); (T56, c_target c); (T34, z_to_dec n); (T52, c_time c)]
                         ++ filter (fun tv => negb (is_hdr_skip (fst tv))) (mtags m)) = get T43 (mtags m)).
  { cbn [app get]. change (str_eqb T49 T43) with false. change (str_eqb T56 T43) with false.
    change (str_eqb T34 T43) with false. change (str_eqb T52 T43) with false. cbn iota.
    apply get_filter_keep; [reflexivity|]. intros k v E. apply str_eqb_eq in E. subst k. reflexivity. }
  assert (H123 : get T123 ([(T49, c_sender c); (T56, c_target c); (T34, z_to_dec n); (T52, c_time c)]
                         ++ filter (fun tv => negb (is_hdr_skip (fst tv))) (mtags m)) = get T123 (mtags m)).
  { cbn [app get]. change (str_eqb T49 T123) with false. change (str_eqb T56 T123) with false.
    change (str_eqb T34 T123) with false. change (str_eqb T52 T123) with false. cbn iota.
    apply get_filter_keep; [reflexivity|]. intros k v E. apply str_eqb_eq in E. subst k. reflexivity. }
  rewrite H43, H123. reflexivity.
Qed.

Lemma send_write_new_nout c m w : raw_seq m = false -> nout (rw (send_write c m w)) = nout w + 1.
Proof.
  intros Hr. unfold send_write, encode. rewrite Hr, (raw_false_skip_false m Hr). msimp.
  assert (Hp : forall a b, pres nout (persist_out a b)) by (intros; apply persist_out_pres; ins_solve).
  set (P := persist_out _ _ _).
  assert (HP : nout (rw P) = nout w + 1) by (subst P; rewrite Hp; reflexivity).
  destruct (rv P); cbn [rv rw re]; [|exact HP]. destruct (wr (rw P)); cbn [rv rw re ret raise]; exact HP.
Qed.

Lemma send_write_new c m w :
  raw_seq m = false -> wr w = true -> in_i64 (nout w) = true -> has_key (nout w) (j_out (jr w)) = false ->
  send_write c m w = mkR (inl tt) (sent_world c m w) [Wire (mkMsg (mtype m) (wire_tags c (nout w) m))].
Proof.
  intros Hr Hw Hi Hk. unfold send_write, encode. rewrite Hr, (raw_false_skip_false m Hr). msimp.
  unfold persist_out. cbn [jr set_nout j_out]. rewrite Hi, Hk. cbn [negb rv rw re].
  cbn. rewrite Hw. reflexivity.
Qed.

Lemma wire_tags_34 c n m : get T34 (wire_tags c n m) = Some (z_to_dec n).
Proof. reflexivity. Qed.

Lemma news_one_new c n m : raw_seq m = false -> news [Wire (mkMsg (mtype m) (wire_tags c n m))] = [mkMsg (mtype m) (wire_tags c n m)].
Proof. intros Hr. unfold news. cbn [wires filter]. rewrite skip_journal_wire, (raw_false_skip_false m Hr). reflexivity. Qed.

Lemma sent_world_outstep c m w (pre : list event) w0 :
  raw_seq m = false ->
  Out_inv w -> wires pre = [] -> j_out (jr w0) = j_out (jr w) -> nout w0 = nout w ->
  (alive (sent_world c m w) -> wr (sent_world c m w) = true) ->
  OutStep w0 (mkR (inl tt) (sent_world c m w) (pre ++ [Wire (mkMsg (mtype m) (wire_tags c (nout w) m))])).
Proof.
  intros Hr [I1 [I2 I3]] Hp Hj Hn Hal. constructor; cbn [rv rw re].
  - split; [|split].
    + cbn. lia.
    + cbn. apply Forall_app. split; [eapply Forall_impl; [|exact I2]; cbn; intros; lia|]. constructor; [cbn; lia|constructor].
    + exact Hal.
  - rewrite news_app, (news_nil _ Hp), (news_one_new c _ m Hr). cbn. rewrite Hj, Hn. reflexivity.
  - rewrite news_app, (news_nil _ Hp), (news_one_new c _ m Hr). cbn. lia.
  - rewrite news_app, (news_nil _ Hp), (news_one_new c _ m Hr). cbn. constructor; [|constructor].
    unfold numbered. cbn [fst snd mtags]. rewrite Hn. apply wire_tags_34.
Qed.

Lemma send_gate_cases2 m w :
  send_gate m w w = mkR (inr XConn) w []
  \/ (ST_NCE < st w /\ send_gate m w w = mkR (inl tt) w [])
  \/ (st w = ST_NCE /\ (mkind m = KLogon \/ mkind m = KLogout)
      /\ send_gate m w w = mkR (inl tt) (set_role ROLE_INITIATOR (set_st ST_LOGON_SENT w)) [State ST_LOGON_SENT]).
Proof.
  unfold send_gate.
  destruct (st w <? ST_NCE) eqn:E0; [left; reflexivity|].
  destruct (st w =? ST_NCE) eqn:E.
  - destruct (mkind m); try (left; reflexivity); right; right; (split; [lia|]); (split; [auto|reflexivity]).
  - destruct (_ && _ && _); [left; reflexivity|]. destruct (_ && _ && _); [left; reflexivity|right; left; split; [lia|reflexivity]].
Qed.

Lemma outstep_eta w {A} (x : res A) : OutStep w x -> OutStep w (mkR (rv x) (rw x) (re x)).
Proof. intros [A1 A2 A3 A4]. constructor; cbn [rv rw re]; auto. Qed.

Lemma outstep_id w {A} (v : A + exn) : Out_inv w -> OutStep w (mkR v w []).
Proof.
  intros H. constructor; cbn [rv rw re]; unfold news; cbn [wires filter number_from length Z.of_nat];
    rewrite ?app_nil_r, ?Z.add_0_r; auto.
Qed.

(* a new (not SequenceReset, not PossDup) message: refused without any effect, or written with number
   next_num_out, which is consumed, and journaled under it *)
Lemma send_msg_new_outok c m : raw_seq m = false -> outok (send_msg c m).
Proof.
  intros Hr w Hi [Hlo Hhi].
  unfold send_msg in *. rewrite bind_unfold in *. cbn [getw rv rw re app] in *. rewrite bind_unfold in *.
  destruct (send_gate_cases2 m w) as [H|[[Hst H]|[H6 [Hk H]]]]; rewrite H in *; cbn [rv rw re app] in *.
  - apply outstep_id. exact Hi.
  - (* gate passed, nothing changed *)
    rewrite send_tail_unfold in *. rewrite bind_unfold in *.
    set (G := treq_gate m w w) in *.
    assert (HG : G = mkR (inr XConn) w [] \/ G = mkR (inl tt) w []).
    { subst G. destruct (treq_gate_cases m w w) as [[H' _]|H']; auto. }
    destruct HG as [HG|HG]; rewrite HG in *; cbn [rv rw re app] in *; [apply outstep_id; exact Hi|].
    rewrite (send_write_new_nout c m w Hr) in Hhi.
    destruct Hi as [I1 [I2 I3]].
    assert (Hw : wr w = true) by (apply I3; unfold alive; stlia).
    rewrite (send_write_new c m w Hr Hw); [| unfold in_i64; lia | apply has_key_below; exact I2 ].
    cbn [rv rw re].
    apply (sent_world_outstep c m w [] w); auto; repeat split; auto.
  - (* Logon / Logout from NETWORK_CONN_ESTABLISHED *)
    set (w6 := set_role ROLE_INITIATOR (set_st ST_LOGON_SENT w)) in *.
    rewrite send_tail_unfold in *. rewrite bind_unfold in *.
    assert (HG : treq_gate m w w6 = mkR (inl tt) w6 []).
    { apply treq_gate_pass. destruct Hk as [Hk|Hk]; rewrite Hk; discriminate. }
    rewrite HG in *. cbn [rv rw re app] in *.
    rewrite (send_write_new_nout c m w6 Hr) in Hhi.
    destruct Hi as [I1 [I2 I3]].
    assert (Hw : wr w = true) by (apply I3; unfold alive; stlia).
    assert (Hi6 : Out_inv w6) by (repeat split; auto).
    assert (Hn6 : nout w6 = nout w) by reflexivity. rewrite Hn6 in Hhi.
    rewrite (send_write_new c m w6 Hr Hw); [| unfold in_i64; rewrite Hn6; lia | apply has_key_below; exact I2 ].
    cbn [rv rw re].
    apply (sent_world_outstep c m w6 [State ST_LOGON_SENT] w); auto.
Qed.

Lemma send_msg_mono c m : raw_seq m = false -> mono (send_msg c m).
Proof.
  intros Hr. unfold send_msg. apply mono_bind; [apply mono_getw|]. intros w0.
  apply mono_bind; [apply mono_pres, send_gate_pres; ins_solve|]. intros _.
  rewrite send_tail_unfold.
  apply mono_bind; [intros w'; destruct (treq_gate_cases m w0 w') as [[H' _]|H']; rewrite H'; cbn; lia|]. intros _.
  intros w. rewrite (send_write_new_nout c m w Hr). lia.
Qed.

(* ------------------------------------------------------------------ handlers that do not send *)

Lemma outok_quiet_inv {A} (c : M A) :
  pres nout c -> pres st c -> pres wr c -> allev not_wire c ->
  (forall w, Out_inv w -> j_sout (jr (rw (c w))) = j_sout (jr w) /\ j_out (jr (rw (c w))) = j_out (jr w)) ->
  outok c.
Proof.
  intros H1 H4 H5 H6 HJ w [I1 [I2 I3]] _.
  destruct (HJ w (conj I1 (conj I2 I3))) as [J1 J2].
  pose proof (news_nil _ (wires_nil _ (H6 w))) as Hw.
  constructor; rewrite ?Hw; cbn [number_from length Z.of_nat]; rewrite ?app_nil_r, ?Z.add_0_r; auto.
  unfold Out_inv, alive. rewrite (H1 w), J1, J2, (H4 w), (H5 w). auto.
Qed.

Lemma filter_all {X} (f : X -> bool) l : Forall (fun x => f x = true) l -> filter f l = l.
Proof. induction 1 as [|x l Hx _ IH]; cbn; [reflexivity|]. now rewrite Hx, IH. Qed.

(* set_seq_num(next_num_in = ...) rewrites the stored outbound counter with next_num_out - 1 and deletes the
   outbound rows >= next_num_out: under the invariant both are no-ops *)
Lemma set_seq_num_in_out_same i w :
  Out_inv w ->
  j_sout (jr (rw (set_seq_num None i w))) = j_sout (jr w) /\ j_out (jr (rw (set_seq_num None i w))) = j_out (jr w).
Proof.
  intros [I1 [I2 _]].
  set (K := fun w' : world => j_sout (jr w') = j_sout (jr w) /\ j_out (jr w') = j_out (jr w) /\ nout w' = nout w).
  assert (HK : keeps K (set_seq_num None i)).
  { unfold set_seq_num. keeps_step; [keeps_tac|]. keeps_step.
    { destruct i; [|keeps_tac]. destruct (z <=? 0); [keeps_tac|]. apply keeps_modw. intros w' H. exact H. }
    apply keeps_bind_getw. intros w1 [K1 [K2 K3]] w' ->.
    destruct (negb _); [repeat split; auto|].
    assert (keeps K
      (modw (fun w0 => set_jsout (nout w1 - 1) (set_jsin (nin w1 - 1) w0)) ;;;
       (if negb (in_i64 (nin w1)) then raise XOverflow else ret tt) ;;;
       modw (fun w0 => set_jin (filter (fun k => k <? nin w1) (j_in (jr w0))) w0) ;;;
       (if negb (in_i64 (nout w1)) then raise XOverflow else ret tt) ;;;
       modw (fun w0 => set_jout (filter (fun r => fst r <? nout w1) (j_out (jr w0))) w0))) as H; [|apply H; repeat split; auto].
    keeps_step.
    { apply keeps_modw. intros w0 [A1 [A2 A3]]. repeat split; cbn; auto. lia. }
    keeps_step; [keeps_tac|]. keeps_step; [apply keeps_modw; intros w0 H; exact H|].
    keeps_step; [keeps_tac|].
    apply keeps_modw. intros w0 [A1 [A2 A3]]. repeat split; cbn; auto.
    rewrite A2. apply filter_all. eapply Forall_impl; [|exact I2]. cbn. intros r Hr. lia. }
  destruct (HK w) as [A1 [A2 _]]; [repeat split; auto|]. auto.
Qed.

Lemma set_seq_num_in_outok i : outok (set_seq_num None i).
Proof.
  apply outok_quiet_inv.
  - apply set_seq_num_pres; [ins_solve|intros H; congruence|intros _; cbn; intros; reflexivity].
  - apply set_seq_num_st.
  - apply set_seq_num_pres; [ins_solve|intros _; cbn; intros; reflexivity|intros _; cbn; intros; reflexivity].
  - apply set_seq_num_allev.
  - intros w Hw. apply set_seq_num_in_out_same. exact Hw.
Qed.

Lemma process_seqreset_outok c m : outok (process_seqreset c m).
Proof.
  assert (Hm : forall i, mono (set_seq_num None i)).
  { intros i. apply mono_pres. apply set_seq_num_pres; [ins_solve|intros H; congruence|intros _; cbn; intros; reflexivity]. }
  unfold process_seqreset.
  apply outok_bind; [apply outok_lift | intros a | intros a].
  - apply outok_bind; [apply set_seq_num_in_outok | intros _ | intros _].
    + apply outok_bind; [apply outok_lift | intros b; apply set_seq_num_in_outok | intros b; apply Hm].
    + apply mono_bind; [apply mono_lift | intros b; apply Hm].
  - apply mono_bind; [apply Hm | intros _; apply mono_bind; [apply mono_lift | intros b; apply Hm]].
Qed.

Lemma persist_in_outok m : outok (persist_in m).
Proof.
  apply outok_quiet; try (apply persist_in_pres; ins_solve). apply persist_in_allev.
Qed.

Lemma state_set_outokA s : outokA (state_set s).
Proof.
  intros w [I1 [I2 I3]] Ha _.
  constructor; cbn [re state_set bind modw emit rv rw]; cbn.
  - unfold Out_inv, alive. destruct (s =? ST_ACTIVE); cbn; repeat split; auto.
  - destruct (s =? ST_ACTIVE); cbn; now rewrite app_nil_r.
  - destruct (s =? ST_ACTIVE); cbn; lia.
  - constructor.
Qed.

Lemma state_set_mono s : mono (state_set s).
Proof. apply mono_pres. apply state_set_pres. ins_solve. Qed.

(* state_set to a dead state needs no live connection *)
Lemma state_set_dead_outok s : s <= ST_DISC_BROKEN -> outok (state_set s).
Proof.
  intros Hs w [I1 [I2 I3]] _.
  constructor; cbn [re state_set bind modw emit rv rw]; cbn.
  - unfold Out_inv, alive. destruct (s =? ST_ACTIVE); cbn; repeat split; auto; intros; stlia.
  - destruct (s =? ST_ACTIVE); cbn; now rewrite app_nil_r.
  - destruct (s =? ST_ACTIVE); cbn; lia.
  - constructor.
Qed.

(* ------------------------------------------------------------------ tactics *)

Create HintDb outok discriminated.
Create HintDb mono discriminated.

Ltac mono_step :=
  match goal with
  | |- mono (bind _ _) => apply mono_bind; [|intros ?]
  | |- mono (ret _) => apply mono_ret
  | |- mono (raise _) => apply mono_raise
  | |- mono getw => apply mono_getw
  | |- mono (emit _) => apply mono_emit
  | |- mono (lift _) => apply mono_lift
  | |- mono (try_ _) => apply mono_try
  | |- mono (modw _) => apply mono_pres, pres_modw; intros ?; reflexivity
  | |- mono (state_set _) => apply state_set_mono
  | |- mono (if ?c then _ else _) => destruct c
  | |- mono (match ?x with _ => _ end) => destruct x
  | |- mono _ => solve [eauto with mono]
  end.
Ltac mono_tac := repeat mono_step.

Ltac ok_step :=
  match goal with
  | |- outok (bind _ _) => apply outok_bind; [|intros ?|intros ?]
  | |- outok (ret _) => apply outok_ret
  | |- outok (raise _) => apply outok_raise
  | |- outok getw => apply outok_getw
  | |- outok (lift _) => apply outok_lift
  | |- outok (try_ _) => apply outok_try
  | |- outok (emit _) => apply outok_emit; exact I
  | |- outok (if ?c then _ else _) => destruct c
  | |- outok (match ?x with _ => _ end) => destruct x
  | |- outok _ => solve [eauto with outok]
  | |- mono _ => mono_step
  end.
Ltac ok_tac := repeat ok_step.

(* modw of fields the invariant does not mention *)
Lemma outok_modw_free g :
  (forall w, nout (g w) = nout w) -> (forall w, jr (g w) = jr w) -> (forall w, st (g w) = st w) ->
  (forall w, wr (g w) = wr w) -> outok (modw g).
Proof.
  intros H1 H2 H3 H4. apply outok_quiet; try (apply pres_modw; intros w; rewrite ?H2; auto).
  apply allev_modw.
Qed.

Lemma logout_is_new s : raw_seq (mkMsg MT_LOGOUT (match s with [] => [] | _ :: _ => [(T58, s)] end)) = false.
Proof. destruct s; reflexivity. Qed.

(* the end of disconnect(): writer dropped and, at once, a disconnected state *)
Lemma disconnect_tail_outok ds :
  ds <= ST_DISC_BROKEN -> outok (modw (set_wr false) ;;; state_set ds ;;; emit OnDisconnect).
Proof.
  intros Hds w [I1 [I2 I3]] _.
  constructor; cbn.
  - unfold Out_inv, alive. destruct (ds =? ST_ACTIVE); cbn; repeat split; auto; intros; stlia.
  - destruct (ds =? ST_ACTIVE); cbn; now rewrite app_nil_r.
  - destruct (ds =? ST_ACTIVE); cbn; lia.
  - constructor.
Qed.

Lemma disconnect_outok c ds lm : outok (disconnect c ds lm).
Proof.
  unfold disconnect. apply outok_bind; [apply outok_getw|intros w0|intros w0].
  - destruct (st w0 <=? ST_DISC_BROKEN); [apply outok_ret|].
    destruct (ds <=? ST_DISC_BROKEN) eqn:Eds.
    2:{ intros w Hi _. cbn. apply outstep_id. exact Hi. }
    apply outok_bind; [apply outok_ret|intros _|intros _].
    + apply outok_bind; [apply outok_modw_free; intros; reflexivity|intros _|intros _].
      * apply outok_bind; [|intros _|intros _].
        -- destruct lm; [apply send_msg_new_outok, logout_is_new|apply outok_ret].
        -- apply disconnect_tail_outok. lia.
        -- mono_tac.
      * mono_step; [destruct lm; [apply send_msg_mono, logout_is_new|apply mono_ret]|]. mono_tac.
    + mono_step; [mono_tac|]. mono_step; [destruct lm; [apply send_msg_mono, logout_is_new|apply mono_ret]|]. mono_tac.
  - destruct (st w0 <=? ST_DISC_BROKEN); [apply mono_ret|].
    mono_step; [mono_tac|]. mono_step; [mono_tac|].
    mono_step; [destruct lm; [apply send_msg_mono, logout_is_new|apply mono_ret]|]. mono_tac.
Qed.

Lemma disconnect_mono c ds lm : mono (disconnect c ds lm).
Proof.
  unfold disconnect. mono_step; [mono_tac|]. destruct (st a <=? ST_DISC_BROKEN); [apply mono_ret|].
  mono_step; [mono_tac|]. mono_step; [mono_tac|].
  mono_step; [destruct lm; [apply send_msg_mono, logout_is_new|apply mono_ret]|]. mono_tac.
Qed.

(* ------------------------------------------------------------------ handlers that send new messages *)

Lemma send_msg_keeps_alive c m : keeps alive (send_msg c m).
Proof. apply (send_msg_keeps_st c m (fun s => ST_DISC_BROKEN < s)). stlia. Qed.

Lemma state_set_keeps_alive s : ST_DISC_BROKEN < s -> keeps alive (state_set s).
Proof. intros Hs w _. unfold alive. rewrite state_set_st. exact Hs. Qed.

Ltac okA_bind := apply outokA_bind; [|intros ?|intros ?|].

Lemma process_logon_outokA c m : outokA (process_logon c m).
Proof.
  assert (Hnew : forall e h, raw_seq (mkMsg MT_LOGON [(T98, e); (T108, h)]) = false) by reflexivity.
  unfold process_logon.
  okA_bind; [apply outok_A, outok_getw| |mono_tac; try apply send_msg_mono; auto|keeps_tac].
  destruct (negb _); [apply outok_A, outok_raise|].
  okA_bind; [apply outok_A, outok_lift| |mono_tac; try apply send_msg_mono; auto|keeps_tac].
  okA_bind.
  - apply outok_A. destruct (role a =? ROLE_ACCEPTOR); [|apply outok_ret].
    destruct (negb _); [apply outok_raise|]. destruct (nin a <=? a0); [|apply outok_ret].
    ok_step; [apply outok_lift| |mono_tac; apply send_msg_mono; auto].
    ok_step; [apply outok_lift|apply send_msg_new_outok; auto|apply send_msg_mono; auto].
  - okA_bind; [apply outok_A, outok_getw| |mono_tac|keeps_tac].
    okA_bind; [destruct (a0 =? nin a2); apply state_set_outokA| |mono_tac|].
    + okA_bind; [apply outok_A, outok_getw|apply outok_A, outok_emit; exact I|mono_tac|keeps_tac].
    + destruct (a0 =? nin a2); apply state_set_keeps_alive; stlia.
  - mono_tac.
  - destruct (role a =? ROLE_ACCEPTOR); [|keeps_tac]. destruct (negb _); [keeps_tac|].
    destruct (nin a <=? a0); [|keeps_tac]. keeps_step; [keeps_tac|]. keeps_step; [keeps_tac|].
    apply send_msg_keeps_alive.
Qed.

Lemma process_logon_mono c m : mono (process_logon c m).
Proof.
  assert (Hnew : forall e h, raw_seq (mkMsg MT_LOGON [(T98, e); (T108, h)]) = false) by reflexivity.
  unfold process_logon. mono_tac; try (apply send_msg_mono; auto).
Qed.

Lemma check_gaps_outokA c n : outokA (check_gaps c n).
Proof.
  assert (Hnew : forall v, raw_seq (mkMsg MT_RESENDREQUEST [(T7, v); (T16, S_0)]) = false) by reflexivity.
  unfold check_gaps.
  okA_bind; [apply outok_A, outok_getw| |mono_tac; apply send_msg_mono; auto|keeps_tac].
  destruct (nin a <? n); [|apply outok_A, outok_ret].
  okA_bind; [|apply outok_A, outok_ret|mono_tac|].
  - destruct (negb _); [|apply outok_A, outok_ret].
    okA_bind; [apply outok_A, outok_modw_free; intros; reflexivity| |mono_tac; apply send_msg_mono; auto|].
    + okA_bind; [apply outok_A, send_msg_new_outok; auto|apply state_set_outokA|mono_tac|apply send_msg_keeps_alive].
    + apply keeps_modw. intros w H. exact H.
  - destruct (negb _); [|keeps_tac]. keeps_step; [apply keeps_modw; intros w H; exact H|].
    keeps_step; [apply send_msg_keeps_alive|apply state_set_keeps_alive; stlia].
Qed.

Lemma check_gaps_mono c n : mono (check_gaps c n).
Proof.
  assert (Hnew : forall v, raw_seq (mkMsg MT_RESENDREQUEST [(T7, v); (T16, S_0)]) = false) by reflexivity.
  unfold check_gaps. mono_tac; apply send_msg_mono; auto.
Qed.

(* gap_check guards itself: on a dead connection it returns at once *)
Lemma gap_check_outok c m : outok (gap_check c m).
Proof.
  intros w Hi Hr. unfold gap_check in *. rewrite bind_unfold in *. cbn [getw rv rw re app] in *.
  destruct (st w <=? ST_DISC_BROKEN) eqn:E; [apply outstep_id; exact Hi|].
  assert (Ha : alive w) by (unfold alive; lia).
  assert (H : outokA (n <- lift (get_int T34 m) ;; b <- check_gaps c n ;; ret (Some b))).
  { okA_bind; [apply outok_A, outok_lift| |mono_tac; apply check_gaps_mono|keeps_tac].
    okA_bind; [apply check_gaps_outokA|apply outok_A, outok_ret|mono_tac|].
    unfold check_gaps. keeps_step; [keeps_tac|]. destruct (nin a0 <? a); [|keeps_tac].
    keeps_step; [|keeps_tac]. destruct (negb _); [|keeps_tac]. keeps_step; [apply keeps_modw; intros w' H'; exact H'|].
    keeps_step; [apply send_msg_keeps_alive|apply state_set_keeps_alive; stlia]. }
  apply outstep_eta. apply H; assumption.
Qed.

Lemma gap_check_mono c m : mono (gap_check c m).
Proof. unfold gap_check. mono_tac. apply check_gaps_mono. Qed.

Lemma process_logout_outok c m : outok (process_logout c m).
Proof.
  unfold process_logout. ok_step; [apply outok_getw| |mono_tac; apply disconnect_mono].
  ok_step; [apply outok_emit; exact I|apply disconnect_outok|apply disconnect_mono].
Qed.

Lemma process_logout_mono c m : mono (process_logout c m).
Proof. unfold process_logout. mono_tac. apply disconnect_mono. Qed.

Lemma logout_counted_outok c m : outok (logout_counted c m).
Proof.
  assert (Hn : outok (set_next_num_in m)).
  { apply outok_quiet; try (apply set_next_num_in_pres; ins_solve). apply set_next_num_in_allev. }
  assert (Hnm : mono (set_next_num_in m)) by (apply mono_pres, set_next_num_in_pres; ins_solve).
  assert (Hpm : mono (persist_in m)) by (apply mono_pres, persist_in_pres; ins_solve).
  assert (Hc : outok (try_ (set_next_num_in m;;; persist_in m);;; ret tt)).
  { ok_step; [apply outok_try; ok_step; [apply Hn|apply persist_in_outok|apply Hpm]|apply outok_ret|apply mono_ret]. }
  assert (Hcm : mono (try_ (set_next_num_in m;;; persist_in m);;; ret tt)).
  { mono_step; [apply mono_try; mono_step; [apply Hnm|apply Hpm]|apply mono_ret]. }
  unfold logout_counted. ok_step; [apply outok_lift| |].
  - ok_step; [apply outok_getw| |].
    + ok_step; [|apply process_logout_outok|apply process_logout_mono].
      destruct (_ =? _); [apply Hc|apply outok_ret].
    + mono_step; [destruct (_ =? _); [apply Hcm|apply mono_ret]|apply process_logout_mono].
  - mono_step; [mono_tac|]. mono_step; [destruct (_ =? _); [apply Hcm|apply mono_ret]|apply process_logout_mono].
Qed.

Lemma logout_counted_mono c m : mono (logout_counted c m).
Proof. apply mono_pres, logout_counted_pres. ins_solve. Qed.

Lemma process_testrequest_outok c m : outok (process_testrequest c m).
Proof. unfold process_testrequest. apply send_msg_new_outok. reflexivity. Qed.

Lemma process_heartbeat_outok c m : outok (process_heartbeat c m).
Proof.
  unfold process_heartbeat. ok_step; [apply outok_getw| |].
  - destruct (treq a); [|apply outok_ret]. destruct (get T112 (mtags m)); [|apply outok_ret].
    destruct (negb _); [apply disconnect_outok|apply outok_modw_free; intros; reflexivity].
  - destruct (treq a); [|apply mono_ret]. destruct (get T112 (mtags m)); [|apply mono_ret].
    destruct (negb _); [apply disconnect_mono|mono_tac].
Qed.

Lemma process_seqreset_mono c m : mono (process_seqreset c m).
Proof.
  apply mono_pres. apply process_seqreset_pres. ins_solve.
Qed.

(* ------------------------------------------------------------------ replies to a ResendRequest *)

Lemma skip_true_raw m : skip_journal m = true -> raw_seq m = true.
Proof.
  intros H. destruct (raw_seq m) eqn:E; [reflexivity|]. rewrite (raw_false_skip_false m E) in H. discriminate.
Qed.

(* a PossDupFlag=Y message / a SequenceReset-GapFill is written (or fails to encode) and nothing else happens *)
Lemma send_write_skip_world c m w : skip_journal m = true -> rw (send_write c m w) = w.
Proof.
  intros Hs. unfold send_write, encode. rewrite (skip_true_raw m Hs), Hs.
  destruct (get T34 (mtags m)); [|reflexivity]. destruct (py_int s); [|reflexivity].
  msimp. destruct (wr w); msimp; reflexivity.
Qed.

Lemma send_msg_skip_pres {X} (f : world -> X) c m :
  skip_journal m = true -> ins_all f [FSt; FRole] -> pres f (send_msg c m).
Proof.
  intros Hs Hf w. unfold send_msg. rewrite bind_unfold. cbn [getw rv rw re]. rewrite bind_unfold.
  pose proof (send_gate_pres f m w Hf w) as Hg.
  destruct (rv (send_gate m w w)); cbn [rv rw re]; [|exact Hg].
  rewrite send_tail_unfold, bind_unfold.
  match goal with |- context [treq_gate m w ?x] => destruct (treq_gate_cases m w x) as [[H' _]|H']; rewrite H' end;
    cbn [rv rw re]; rewrite ?(send_write_skip_world c m _ Hs); exact Hg.
Qed.

Lemma send_msg_skip_news c m w : skip_journal m = true -> news (re (send_msg c m w)) = [].
Proof.
  intros Hs. unfold news. destruct (send_msg_wires c m w) as [H|[n H]]; rewrite H; [reflexivity|].
  cbn [filter]. rewrite skip_journal_wire, Hs. reflexivity.
Qed.

Lemma send_msg_alive_back c m w : alive (rw (send_msg c m w)) -> alive w.
Proof.
  unfold alive. destruct (send_msg_st c m w) as [E|[E1 E2]]; [rewrite E; auto|]. intros _. stlia.
Qed.

Lemma send_msg_retrans_outok c m : skip_journal m = true -> outok (send_msg c m).
Proof.
  intros Hs w [I1 [I2 I3]] _.
  assert (P1 : nout (rw (send_msg c m w)) = nout w) by (apply (send_msg_skip_pres nout c m Hs); ins_solve).
  assert (P2 : j_sout (jr (rw (send_msg c m w))) = j_sout (jr w))
    by (apply (send_msg_skip_pres (fun w => j_sout (jr w)) c m Hs); ins_solve).
  assert (P3 : j_out (jr (rw (send_msg c m w))) = j_out (jr w))
    by (apply (send_msg_skip_pres (fun w => j_out (jr w)) c m Hs); ins_solve).
  assert (P4 : wr (rw (send_msg c m w)) = wr w) by (apply (send_msg_skip_pres wr c m Hs); ins_solve).
  constructor; rewrite ?(send_msg_skip_news c m w Hs); cbn [number_from length Z.of_nat];
    rewrite ?app_nil_r, ?Z.add_0_r; auto.
  unfold Out_inv. rewrite P1, P2, P3, P4. repeat split; auto.
  intros Ha. apply I3. eapply send_msg_alive_back; eauto.
Qed.

Lemma send_msg_retrans_mono c m : skip_journal m = true -> mono (send_msg c m).
Proof. intros Hs. apply mono_pres. apply send_msg_skip_pres; [exact Hs|ins_solve]. Qed.

Lemma gap_fill_skip b e : skip_journal (gap_fill b e) = true.
Proof. reflexivity. Qed.

Lemma get_app_new t v l : get t l = None -> get t (l ++ [(t, v)]) = Some v.
Proof.
  induction l as [|[k x] l IH]; cbn [app get]; intros H.
  - now rewrite str_eqb_refl.
  - destruct (str_eqb k t); [discriminate|]. apply IH. exact H.
Qed.

Lemma get_app_keep t (l l' : list tagv) v : get t l = Some v -> get t (l ++ l') = Some v.
Proof.
  induction l as [|[k x] l IH]; cbn [app get]; intros H; [discriminate|].
  destruct (str_eqb k t); [exact H|]. apply IH. exact H.
Qed.

Lemma get_del_other t t' l : t' <> t -> get t (del t' l) = get t l.
Proof.
  intros Hne. induction l as [|[k x] l IH]; [reflexivity|]. cbn [del].
  destruct (str_eqb k t') eqn:E.
  - apply str_eqb_eq in E. subst k. cbn [get]. destruct (str_eqb t' t) eqn:E2; [apply str_eqb_eq in E2; congruence|reflexivity].
  - cbn [get]. destruct (str_eqb k t); [reflexivity|exact IH].
Qed.

Lemma get_put_same t v l : get t (put t v l) = Some v.
Proof.
  induction l as [|[k x] l IH]; cbn [put get]; [now rewrite str_eqb_refl|].
  destruct (str_eqb k t) eqn:E; cbn [get]; rewrite E; [reflexivity|exact IH].
Qed.

Lemma get_put_other t t' v l : t' <> t -> get t (put t' v l) = get t l.
Proof.
  intros Hne. induction l as [|[k x] l IH]; cbn [put get].
  - destruct (str_eqb t' t) eqn:E; [apply str_eqb_eq in E; congruence|reflexivity].
  - destruct (str_eqb k t') eqn:E; cbn [get].
    + apply str_eqb_eq in E. subst k. destruct (str_eqb t' t) eqn:E2; [apply str_eqb_eq in E2; congruence|reflexivity].
    + destruct (str_eqb k t); [reflexivity|exact IH].
Qed.

Lemma del_tags_get t ts : forall (x y : msg),
  ~ In t ts -> del_tags ts x = inl y -> get t (mtags y) = get t (mtags x).
Proof.
  induction ts as [|t' ts IH]; intros x y Hn H; cbn in H; [now inversion H|].
  unfold del_tag in H. destruct (has t' (mtags x)); [|discriminate].
  rewrite (IH _ _ (fun Hin => Hn (or_intror Hin)) H). cbn [mtags]. apply get_del_other.
  intros E. apply Hn. left. exact E.
Qed.

(* outok and mono together, with a bind rule that keeps the equation of a lifted value *)
Definition om {A} (c : M A) : Prop := outok c /\ mono c.

Lemma om_bind {A B} (c : M A) (k : A -> M B) : om c -> (forall a, om (k a)) -> om (bind c k).
Proof.
  intros [Hc Hm] Hk. split.
  - apply outok_bind; [exact Hc|intros a; apply Hk|intros a; apply Hk].
  - apply mono_bind; [exact Hm|intros a; apply Hk].
Qed.

Lemma om_bind_lift {A B} (v : A + exn) (k : A -> M B) :
  (forall a, v = inl a -> om (k a)) -> om (bind (lift v) k).
Proof.
  intros H. destruct v as [a|x].
  - destruct (H a eq_refl) as [Ho Hm]. split.
    + intros w Hi Hr. rewrite bind_unfold in *. cbn [lift ret rv rw re app] in *. apply outstep_eta. apply Ho; assumption.
    + intros w. rewrite bind_unfold. cbn [lift ret rv rw re]. apply Hm.
  - split.
    + intros w Hi _. rewrite bind_unfold. cbn [lift raise rv rw re]. apply outstep_id. exact Hi.
    + intros w. rewrite bind_unfold. cbn. lia.
Qed.

Lemma om_ret {A} (a : A) : om (ret a). Proof. split; [apply outok_ret|apply mono_ret]. Qed.
Lemma om_raise {A} x : om (@raise A x). Proof. split; [apply outok_raise|apply mono_raise]. Qed.
Lemma om_retrans c m : skip_journal m = true -> om (send_msg c m).
Proof. intros H. split; [apply send_msg_retrans_outok|apply send_msg_retrans_mono]; exact H. Qed.

(* the replay loop sends gap fills and PossDupFlag=Y copies only: nothing is journaled, nothing is numbered *)
Lemma replay_loop_om c rows : forall a b, om (replay_loop c rows a b).
Proof.
  induction rows as [|r rows IH]; intros a b; cbn [replay_loop]; cbv zeta; [apply om_ret|].
  apply om_bind_lift. intros n _. apply om_bind_lift. intros t _.
  destruct (_ || _); [apply IH|].
  cbv zeta. apply om_bind; [destruct (_ <? _); [apply om_retrans, gap_fill_skip|apply om_ret]|intros _].
  apply om_bind_lift. intros v52 _. apply om_bind_lift. intros m3 H3.
  apply om_bind; [|intros _; apply IH].
  apply om_retrans. unfold skip_journal.
  assert (get T43 (mtags m3) = Some S_Y) as ->; [|reflexivity].
  rewrite (del_tags_get T43 [T35; T8; T9; T52; T49; T56; T10]
             (put_tag T122 v52 (put_tag T43 S_Y (decode_row c r))) m3);
    [|cbn; intros [E|[E|[E|[E|[E|[E|[E|[]]]]]]]]; discriminate|exact H3].
  cbn [put_tag mtags]. rewrite get_put_other; [apply get_put_same|discriminate].
Qed.

Lemma replay_loop_keeps_alive c rows : forall a b, keeps alive (replay_loop c rows a b).
Proof.
  induction rows as [|r rows IH]; intros a b; cbn [replay_loop]; cbv zeta; [keeps_tac|].
  keeps_step; [keeps_tac|]. keeps_step; [keeps_tac|]. destruct (_ || _); [apply IH|].
  cbv zeta. keeps_step; [destruct (_ <? _); [apply send_msg_keeps_alive|keeps_tac]|].
  keeps_step; [keeps_tac|]. keeps_step; [keeps_tac|].
  keeps_step; [apply send_msg_keeps_alive|apply IH].
Qed.

(* _process_resend (D12 repaired: no journal rewind any more): on a live connection it keeps the invariant,
   consumes no number and journals nothing *)
Lemma process_resend_outokA c m : outokA (process_resend c m).
Proof.
  assert (Hrec : forall a b, outok (recover_out a b)).
  { intros. apply outok_quiet; try apply recover_out_pres. apply recover_out_allev. }
  unfold process_resend.
  okA_bind; [apply outok_A, outok_getw| | |keeps_tac].
  2:{ mono_step; [mono_tac|]. mono_step; [mono_tac|]. mono_step; [mono_tac|].
      mono_step; [apply mono_pres, recover_out_pres|]. mono_step; [mono_tac|].
      mono_step; [apply replay_loop_om|]. mono_step; [mono_tac|].
      mono_step; [destruct (_ <? _); [apply send_msg_retrans_mono, gap_fill_skip|mono_tac]|]. mono_tac. }
  okA_bind; [destruct (negb _); [apply state_set_outokA|apply outok_A, outok_ret]| | |].
  3:{ destruct (negb _); [apply state_set_keeps_alive; stlia|keeps_tac]. }
  2:{ mono_step; [mono_tac|]. mono_step; [mono_tac|].
      mono_step; [apply mono_pres, recover_out_pres|]. mono_step; [mono_tac|].
      mono_step; [apply replay_loop_om|]. mono_step; [mono_tac|].
      mono_step; [destruct (_ <? _); [apply send_msg_retrans_mono, gap_fill_skip|mono_tac]|]. mono_tac. }
  okA_bind; [apply outok_A, outok_lift| | |keeps_tac].
  2:{ mono_step; [mono_tac|].
      mono_step; [apply mono_pres, recover_out_pres|]. mono_step; [mono_tac|].
      mono_step; [apply replay_loop_om|]. mono_step; [mono_tac|].
      mono_step; [destruct (_ <? _); [apply send_msg_retrans_mono, gap_fill_skip|mono_tac]|]. mono_tac. }
  okA_bind; [apply outok_A, outok_lift| | |keeps_tac].
  2:{ mono_step; [apply mono_pres, recover_out_pres|]. mono_step; [mono_tac|].
      mono_step; [apply replay_loop_om|]. mono_step; [mono_tac|].
      mono_step; [destruct (_ <? _); [apply send_msg_retrans_mono, gap_fill_skip|mono_tac]|]. mono_tac. }
  okA_bind; [apply outok_A, Hrec| | |apply (keeps_pres st (fun s => ST_DISC_BROKEN < s)), recover_out_pres].
  2:{ mono_step; [mono_tac|].
      mono_step; [apply replay_loop_om|]. mono_step; [mono_tac|].
      mono_step; [destruct (_ <? _); [apply send_msg_retrans_mono, gap_fill_skip|mono_tac]|]. mono_tac. }
  okA_bind; [apply outok_A, outok_getw| | |keeps_tac].
  2:{ mono_step; [apply replay_loop_om|]. mono_step; [mono_tac|].
      mono_step; [destruct (_ <? _); [apply send_msg_retrans_mono, gap_fill_skip|mono_tac]|]. mono_tac. }
  okA_bind; [apply outok_A, replay_loop_om| | |apply replay_loop_keeps_alive].
  2:{ mono_step; [mono_tac|].
      mono_step; [destruct (_ <? _); [apply send_msg_retrans_mono, gap_fill_skip|mono_tac]|]. mono_tac. }
  okA_bind; [destruct (_ <? _); [apply outok_A, outok_raise|apply outok_A, outok_ret]| | |keeps_tac].
  2:{ mono_step; [destruct (_ <? _); [apply send_msg_retrans_mono, gap_fill_skip|mono_tac]|]. mono_tac. }
  okA_bind; [destruct (_ <? _); [apply outok_A, send_msg_retrans_outok, gap_fill_skip|apply outok_A, outok_ret]| | |].
  3:{ destruct (_ <? _); [apply send_msg_keeps_alive|keeps_tac]. }
  2:{ mono_tac. }
  okA_bind; [apply outok_A, outok_getw| |mono_tac|keeps_tac].
  destruct (negb _); [apply state_set_outokA|apply outok_A, outok_ret].
Qed.

Lemma process_resend_mono c m : mono (process_resend c m).
Proof.
  unfold process_resend. mono_step; [mono_tac|]. mono_step; [mono_tac|]. mono_step; [mono_tac|].
  mono_step; [mono_tac|]. mono_step; [apply mono_pres, recover_out_pres|]. mono_step; [mono_tac|].
  mono_step; [apply replay_loop_om|]. mono_step; [mono_tac|].
  mono_step; [destruct (_ <? _); [apply send_msg_retrans_mono, gap_fill_skip|mono_tac]|]. mono_tac.
Qed.

Lemma outstep_rv {A B} w (r : res A) (v : B + exn) : OutStep w r -> OutStep w (mkR v (rw r) (re r)).
Proof. intros [A1 A2 A3 A4]. constructor; cbn [rv rw re]; auto. Qed.

Lemma mono_finally {A} (c : M A) (g : M unit) : mono c -> mono g -> mono (finally_ c g).
Proof.
  intros Hc Hg w. unfold finally_. specialize (Hc w). specialize (Hg (rw (c w))).
  destruct (rv (g (rw (c w)))); cbn [rw]; lia.
Qed.

Lemma outokA_finally {A} (c : M A) (g : M unit) : outokA c -> outok g -> mono g -> outokA (finally_ c g).
Proof.
  intros Hc Hg Hm w Hi Ha [Hlo Hhi]. unfold finally_ in *.
  assert (Hhi' : nout (rw (g (rw (c w)))) <= I64MAX + 1) by (destruct (rv (g (rw (c w)))); exact Hhi).
  assert (S1 : OutStep w (c w)).
  { apply Hc; [exact Hi|exact Ha|]. split; [exact Hlo|]. specialize (Hm (rw (c w))). lia. }
  assert (S2 : OutStep (rw (c w)) (g (rw (c w)))).
  { apply Hg; [apply S1|]. split; [|exact Hhi']. rewrite (os_nout _ _ S1). lia. }
  pose proof (outstep_compose w (c w) (g (rw (c w))) S1 S2) as S.
  destruct (rv (g (rw (c w)))); apply (outstep_rv w _ _ S).
Qed.

Lemma restore_handling_outok : outok restore_handling.
Proof.
  intros w Hi Hr. unfold restore_handling in *. rewrite bind_unfold in *. cbn [getw rv rw re app] in *.
  destruct (st w =? ST_HANDLING) eqn:E; [|apply outstep_id; exact Hi].
  apply outstep_eta. apply state_set_outokA; [exact Hi|unfold alive; stlia|exact Hr].
Qed.

Lemma restore_handling_mono : mono restore_handling.
Proof. unfold restore_handling. mono_tac. Qed.

(* everything dispatch does keeps the invariant on a live connection (dispatch is only reached on one) *)
Lemma dispatch_outokA c m v : outokA (dispatch c m v).
Proof.
  assert (Hd : outok (if v then (w <- getw ;; match get_int T34 m with
                                             | inl n => if n =? nin w then emit (App m) else ret tt
                                             | inr _ => ret tt end)
                      else ret tt)).
  { destruct v; [|apply outok_ret]. ok_step; [apply outok_getw| |].
    - destruct (get_int T34 m); [|apply outok_ret]. destruct (_ =? _); [apply outok_emit; exact I|apply outok_ret].
    - mono_tac. }
  unfold dispatch. destruct (mkind m); try apply outok_A, outok_ret.
  - apply outok_A, Hd.
  - apply outokA_finally; [apply process_resend_outokA|apply restore_handling_outok|apply restore_handling_mono].
  - apply outok_A, process_testrequest_outok.
  - apply outok_A, process_heartbeat_outok.
  - apply outok_A, Hd.
Qed.

Lemma dispatch_mono c m v : mono (dispatch c m v).
Proof.
  unfold dispatch. destruct (mkind m); try apply mono_ret.
  - destruct v; mono_tac.
  - apply mono_finally; [apply process_resend_mono|apply restore_handling_mono].
  - apply send_msg_mono. reflexivity.
  - unfold process_heartbeat. mono_tac. apply disconnect_mono.
  - destruct v; mono_tac.
Qed.

(* _finalize_message: state_set(ACTIVE) only from RESENDREQ_AWAITING, i.e. on a live connection *)
Lemma finalize_outok m now : outok (finalize m now).
Proof.
  unfold finalize. ok_step.
  - apply outok_quiet; try (apply set_next_num_in_pres; ins_solve). apply set_next_num_in_allev.
  - destruct (a <=? 0); [apply outok_ret|].
    intros w Hi Hr. unfold finalize_tail in *. rewrite bind_unfold in *. cbn [getw rv rw re app] in *.
    assert (Hrest : outok (modw (set_lastt now) ;;; persist_in m)).
    { ok_step; [apply outok_modw_free; intros; reflexivity|apply persist_in_outok|].
      apply mono_pres, persist_in_pres; ins_solve. }
    assert (Hrm : mono (modw (set_lastt now) ;;; persist_in m)).
    { mono_step; [mono_tac|]. apply mono_pres, persist_in_pres; ins_solve. }
    destruct (st w =? ST_AWAITING) eqn:Es.
    + assert (Ha : alive w) by (unfold alive; stlia).
      assert (H : outokA ((if negb (0 <? maxres w) then raise XAssertion
                           else if maxres w <=? a then modw (set_maxres 0) ;;; state_set ST_ACTIVE else ret tt) ;;;
                          modw (set_lastt now) ;;; persist_in m)).
      { okA_bind; [|apply outok_A, Hrest|apply Hrm|].
        - destruct (negb _); [apply outok_A, outok_raise|]. destruct (maxres w <=? a); [|apply outok_A, outok_ret].
          okA_bind; [apply outok_A, outok_modw_free; intros; reflexivity|apply state_set_outokA|mono_tac|].
          apply keeps_modw. intros w' H'. exact H'.
        - destruct (negb _); [keeps_tac|]. destruct (maxres w <=? a); [|keeps_tac].
          keeps_step; [apply keeps_modw; intros w' H'; exact H'|apply state_set_keeps_alive; stlia]. }
      apply outstep_eta. apply H; assumption.
    + assert (H : outok (ret tt ;;; modw (set_lastt now) ;;; persist_in m)).
      { ok_step; [apply outok_ret|apply Hrest|apply Hrm]. }
      apply outstep_eta. apply H; assumption.
  - destruct (a <=? 0); [apply mono_ret|]. apply mono_pres, finalize_tail_pres. ins_solve.
Qed.

Lemma finalize_mono m now : mono (finalize m now).
Proof. apply mono_pres, finalize_pres. ins_solve. Qed.

(* ------------------------------------------------------------------ _process_message *)

Lemma outokA_bind_ok {A B} (c : M A) (k : A -> M B) :
  outokA c -> (forall a, outok (k a)) -> (forall a, mono (k a)) -> outokA (bind c k).
Proof.
  intros Hc Hk Hm w Hi Ha [Hlo Hhi]. rewrite bind_unfold in *.
  destruct (rv (c w)) eqn:E; cbn [rv rw re] in *.
  - assert (S1 : OutStep w (c w)).
    { apply Hc; [exact Hi|exact Ha|]. split; [exact Hlo|]. specialize (Hm a (rw (c w))). lia. }
    assert (S2 : OutStep (rw (c w)) (k a (rw (c w)))).
    { apply Hk; [apply S1|]. split; [|exact Hhi]. rewrite (os_nout _ _ S1). lia. }
    apply (outstep_compose w (c w) (k a (rw (c w))) S1 S2).
  - assert (S1 : OutStep w (c w)) by (apply Hc; [exact Hi|exact Ha|split; assumption]).
    destruct S1 as [A1 A2 A3 A4]. constructor; cbn [rv rw re]; auto.
Qed.

Lemma pre_handlers_outokA c m w0 : outokA (pre_handlers c m w0).
Proof.
  unfold pre_handlers. okA_bind.
  - destruct (st w0 =? ST_NCE); [|apply outok_A, outok_ret].
    okA_bind; [apply state_set_outokA|apply outok_A, outok_modw_free; intros; reflexivity|mono_tac|].
    apply state_set_keeps_alive. stlia.
  - destruct (mkind m); try apply outok_A, outok_ret.
    + apply process_logon_outokA.
    + apply outok_A, process_seqreset_outok.
    + apply outok_A, logout_counted_outok.
  - destruct (mkind m); try apply mono_ret.
    + apply process_logon_mono.
    + apply process_seqreset_mono.
    + apply logout_counted_mono.
  - destruct (st w0 =? ST_NCE); [|keeps_tac].
    keeps_step; [apply state_set_keeps_alive; stlia|apply keeps_modw; intros w H; exact H].
Qed.

Lemma pre_handlers_mono c m w0 : mono (pre_handlers c m w0).
Proof.
  unfold pre_handlers. mono_step; [mono_tac|]. destruct (mkind m); try apply mono_ret.
  - apply process_logon_mono.
  - apply process_seqreset_mono.
  - apply logout_counted_mono.
Qed.

Lemma part1_outok c m : outok (part1 c m).
Proof.
  intros w Hi Hr. unfold part1 in *. rewrite bind_unfold in *. cbn [getw rv rw re app] in *.
  destruct (st w <? ST_NCE) eqn:E6; [apply outstep_id; exact Hi|].
  assert (Ha : alive w) by (unfold alive; stlia).
  destruct (early_drop m w).
  - assert (H : outok (disconnect c ST_DISC_BROKEN None ;;; ret (@None bool))).
    { ok_step; [apply disconnect_outok|apply outok_ret|apply mono_ret]. }
    apply outstep_eta. apply H; assumption.
  - assert (H : outokA (pre_handlers c m w ;;; gap_check c m)).
    { apply outokA_bind_ok; [apply pre_handlers_outokA|intros; apply gap_check_outok|intros; apply gap_check_mono]. }
    apply outstep_eta. apply H; assumption.
Qed.

Lemma part1_mono c m : mono (part1 c m).
Proof.
  unfold part1. mono_step; [mono_tac|]. destruct (st a <? ST_NCE); [apply mono_raise|].
  destruct (early_drop m a).
  - mono_step; [apply disconnect_mono|apply mono_ret].
  - mono_step; [apply pre_handlers_mono|apply gap_check_mono].
Qed.

(* bind where the continuation may use what the first part returned in the world it left *)
Lemma outok_bind_dep {A B} (c : M A) (k : A -> M B) :
  outok c -> (forall a, mono (k a)) ->
  (forall w a, Out_inv (rw (c w)) -> rv (c w) = inl a -> in_range (rw (c w)) (k a (rw (c w))) ->
               OutStep (rw (c w)) (k a (rw (c w)))) ->
  outok (bind c k).
Proof.
  intros Hc Hm Hk w Hi [Hlo Hhi]. rewrite bind_unfold in *.
  destruct (rv (c w)) eqn:E; cbn [rv rw re] in *.
  - assert (S1 : OutStep w (c w)).
    { apply Hc; [exact Hi|]. split; [exact Hlo|]. specialize (Hm a (rw (c w))). lia. }
    assert (S2 : OutStep (rw (c w)) (k a (rw (c w)))).
    { apply Hk; [apply S1|exact E|]. split; [|exact Hhi]. rewrite (os_nout _ _ S1). lia. }
    apply (outstep_compose w (c w) (k a (rw (c w))) S1 S2).
  - assert (S1 : OutStep w (c w)) by (apply Hc; [exact Hi|split; assumption]).
    destruct S1 as [A1 A2 A3 A4]. constructor; cbn [rv rw re]; auto.
Qed.

Lemma outokA_try {A} (c : M A) : outokA c -> outokA (try_ c).
Proof.
  intros H w Hi Ha Hr. unfold try_ in *.
  assert (S : OutStep w (c w)).
  { apply H; [exact Hi|exact Ha|]. destruct Hr as [H1 H2]. split; [exact H1|]. destruct (rv (c w)); exact H2. }
  destruct S as [A1 A2 A3 A4]. destruct (rv (c w)); constructor; cbn [rv rw re]; auto.
Qed.

(* when the try body reaches the dispatcher the connection is up *)
Lemma part1_some_alive c m w b : rv (part1 c m w) = inl (Some b) -> alive (rw (part1 c m w)).
Proof.
  intros H. pose proof (part1_spec c m w) as [Pt _ _ _ _ Pf]. unfold alive. destruct b.
  - destruct (Pt H) as [n [_ [_ [_ [_ Hnd]]]]]. unfold dead in Hnd. lia.
  - rewrite (Pf H). stlia.
Qed.

Lemma after_part1_mono c m now r1 : mono (after_part1 c m now r1).
Proof.
  unfold after_part1. destruct r1 as [[[|]|]|]; try apply mono_ret.
  - mono_step; [apply mono_try, dispatch_mono|apply finalize_mono].
  - mono_step; [apply mono_try, dispatch_mono|apply mono_ret].
Qed.

(* _process_message keeps the outbound invariant - for every inbound message, ResendRequests included *)
Lemma process_message_outok c m now : outok (process_message c m now).
Proof.
  intros w Hi Hr. unfold process_message in *. destruct (validate_integrity c m w).
  - assert (H : outok (r1 <- try_ (part1 c m) ;; after_part1 c m now r1)); [|apply H; assumption].
    apply outok_bind_dep; [apply outok_try, part1_outok|intros; apply after_part1_mono|].
    intros w0 r1 Hi1 Hrv Hr1. unfold after_part1 in *.
    destruct r1 as [[b|]|]; try (apply outok_ret; assumption).
    assert (Ha : alive (rw (try_ (part1 c m) w0))).
    { unfold try_ in *. destruct (rv (part1 c m w0)) as [o|x] eqn:E; cbn [rv rw re] in *; [|discriminate].
      inversion Hrv. subst o. apply part1_some_alive with (b := b). exact E. }
    destruct b.
    + assert (H : outokA (try_ (dispatch c m true) ;;; finalize m now)); [|apply H; assumption].
      apply outokA_bind_ok; [apply outokA_try, dispatch_outokA|intros; apply finalize_outok|intros; apply finalize_mono].
    + assert (H : outokA (try_ (dispatch c m false) ;;; ret tt)); [|apply H; assumption].
      apply outokA_bind_ok; [apply outokA_try, dispatch_outokA|intros; apply outok_ret|intros; apply mono_ret].
  - apply disconnect_outok; assumption.
  - apply disconnect_outok; assumption.
  - apply outstep_id. exact Hi.
Qed.

(* ------------------------------------------------------------------ histories *)

(* known-finding class *)
(* D20: the application sends a SequenceReset that is not a gap fill (no GapFillFlag = Y, no PossDupFlag = Y):
   it is numbered by its own MsgSeqNum field and journaled under that number without consuming it.
   (PossDupFlag = Y messages and SequenceReset-GapFill are written but never journaled: harmless.) *)
Definition D20_step (s : srec) : Prop :=
  exists m, s_op s = OSend m /\ raw_seq m = true /\ skip_journal m = false.

Definition D20_stepb (s : srec) : bool :=
  match s_op s with OSend m => raw_seq m && negb (skip_journal m) | _ => false end.

Lemma c05_classes_forallb l :
  forallb (fun s => negb (D20_stepb s)) l = true -> Forall (fun s => ~ D20_step s) l.
Proof.
  intros H. rewrite forallb_forall in H. apply Forall_forall. intros s Hs. specialize (H s Hs).
  intros [m [Ho [Hr Hk]]]. unfold D20_stepb in H. rewrite Ho, Hr, Hk in H. discriminate.
Qed.

Lemma step_outok c o w :
  let s := mkS w o (step c o w) in
  ~ D20_step s -> Out_inv w -> in_range w (step c o w) -> OutStep w (step c o w).
Proof.
  intros s H20 Hi Hr. subst s. destruct o as [m now|m|now|ds lm]; cbn [step] in *.
  - apply process_message_outok; assumption.
  - destruct (raw_seq m) eqn:E.
    + destruct (skip_journal m) eqn:Es.
      * apply send_msg_retrans_outok; assumption.
      * exfalso. apply H20. exists m. auto.
    + apply send_msg_new_outok; assumption.
  - assert (H : outok (send_test_req c now)).
    { unfold send_test_req. ok_step; [apply outok_getw| |].
      - destruct (treq a); [apply outok_raise|].
        ok_step; [apply outok_modw_free; intros; reflexivity|apply send_msg_new_outok; reflexivity|apply send_msg_mono; reflexivity].
      - destruct (treq a); [apply mono_raise|]. mono_step; [mono_tac|apply send_msg_mono; reflexivity]. }
    apply H; assumption.
  - apply disconnect_outok; assumption.
Qed.

Lemma step_mono c o w :
  ~ D20_step (mkS w o (step c o w)) -> nout w <= nout (rw (step c o w)).
Proof.
  intros H20. destruct o as [m now|m|now|ds lm]; cbn [step] in *.
  - unfold process_message. destruct (validate_integrity c m w); try apply disconnect_mono; [|cbn; lia].
    assert (H : mono (r1 <- try_ (part1 c m) ;; after_part1 c m now r1)); [|apply H].
    mono_step; [apply mono_try, part1_mono|apply after_part1_mono].
  - destruct (raw_seq m) eqn:E.
    + destruct (skip_journal m) eqn:Es; [apply send_msg_retrans_mono; exact Es|].
      exfalso. apply H20. exists m. auto.
    + apply send_msg_mono. exact E.
  - unfold send_test_req. rewrite bind_unfold. cbn [getw rv rw re].
    destruct (treq w); [cbn; lia|]. rewrite bind_unfold. cbn [modw rv rw re].
    apply (send_msg_mono c (mkMsg MT_TESTREQUEST [(T112, z_to_dec now)]) eq_refl (set_treq (Some now) w)).
  - apply disconnect_mono.
Qed.

Lemma final_cons c w o h : final c w (o :: h) = final c (rw (step c o w)) h.
Proof. reflexivity. Qed.

Lemma run_mono c h : forall w,
  Forall (fun s => ~ D20_step s) (run c w h) -> nout w <= nout (final c w h).
Proof.
  induction h as [|o h IH]; intros w Hc; [cbn; lia|].
  rewrite final_cons. cbn [run] in Hc. inversion Hc as [|s l H20 Hrest]; subst.
  pose proof (step_mono c o w H20). specialize (IH _ Hrest). lia.
Qed.

(* C05_history_partial: outside D20, with all numbers inside SQLite's INTEGER range, every step of every history
   (inbound ResendRequests included) keeps the invariant, numbers the new frames it writes consecutively from
   next_num_out, and journals exactly those *)
Lemma run_out_inv c h : forall w,
  Out_inv w -> I64MIN <= nout w -> nout (final c w h) <= I64MAX + 1 ->
  Forall (fun s => ~ D20_step s) (run c w h) ->
  Forall (fun s => OutStep (s_before s) (s_res s)) (run c w h) /\ Out_inv (final c w h).
Proof.
  induction h as [|o h IH]; intros w Hi Hlo Hhi Hc.
  { split; [constructor|exact Hi]. }
  rewrite final_cons in *. cbn [run] in *. inversion Hc as [|s l H20 Hrest]; subst.
  pose proof (step_mono c o w H20) as Hm.
  pose proof (run_mono c h _ Hrest) as Hb.
  assert (S : OutStep w (step c o w)).
  { apply step_outok; auto. split; [exact Hlo|lia]. }
  assert (I : Forall (fun s => OutStep (s_before s) (s_res s)) (run c (rw (step c o w)) h)
              /\ Out_inv (final c (rw (step c o w)) h)).
  { apply IH; [apply S|lia|exact Hhi|exact Hrest]. }
  destruct I as [I1 I2]. split; [constructor; [exact S|exact I1]|exact I2].
Qed.

(* ------------------------------------------------------------------ one send, spelled out *)

Lemma lookup_app_new k rows m : has_key k rows = false -> lookup k (rows ++ [(k, m)]) = Some m.
Proof.
  unfold has_key. induction rows as [|[n x] rows IH]; cbn; intros H.
  - now rewrite Z.eqb_refl.
  - destruct (n =? k) eqn:E; cbn in H; [discriminate|]. apply IH. exact H.
Qed.

(* a new message: refused with nothing changed, or accepted: written once with MsgSeqNum = next_num_out, that
   number consumed, the frame readable from the journal under it, the stored counter = that number *)
Lemma send_msg_new_cases c m w :
  raw_seq m = false -> Out_inv w -> in_i64 (nout w) = true ->
  send_msg c m w = mkR (inr XConn) w []
  \/ exists w' pre,
       let wm := mkMsg (mtype m) (wire_tags c (nout w) m) in
       send_msg c m w = mkR (inl tt) w' (pre ++ [Wire wm]) /\ wires pre = []
       /\ get T34 (mtags wm) = Some (z_to_dec (nout w))
       /\ nout w' = nout w + 1 /\ j_sout (jr w') = nout w
       /\ lookup (nout w) (j_out (jr w')) = Some wm
       /\ j_out (jr w') = j_out (jr w) ++ [(nout w, wm)] /\ Out_inv w'.
Proof.
  intros Hr Hi Hrange.
  assert (Hstep : OutStep w (send_msg c m w)).
  { apply send_msg_new_outok; auto. split.
    - unfold in_i64 in Hrange. lia.
    - pose proof (send_msg_pres nout c m) as _.
      (* next_num_out grows by at most one *)
      assert (nout (rw (send_msg c m w)) <= nout w + 1); [|unfold in_i64 in Hrange; lia].
      unfold send_msg. rewrite bind_unfold. cbn [getw rv rw re]. rewrite bind_unfold.
      assert (Hg : pres nout (send_gate m w)) by (apply send_gate_pres; ins_solve).
      destruct (rv (send_gate m w w)); cbn [rv rw re]; [|rewrite Hg; lia].
      rewrite send_tail_unfold, bind_unfold.
      match goal with |- context [treq_gate m w ?x] => destruct (treq_gate_cases m w x) as [[H' _]|H']; rewrite H' end;
        cbn [rv rw re]; rewrite ?(send_write_new_nout c m _ Hr), ?Hg; lia. }
  destruct Hi as [I1 [I2 I3]].
  unfold send_msg in *. rewrite bind_unfold in *. cbn [getw rv rw re app] in *. rewrite bind_unfold in *.
  destruct (send_gate_cases2 m w) as [H|[[Hst H]|[H6 [Hk H]]]]; rewrite H in *; cbn [rv rw re app] in *.
  - left. reflexivity.
  - rewrite send_tail_unfold in *. rewrite bind_unfold in *.
    set (G := treq_gate m w w) in *.
    assert (HG : G = mkR (inr XConn) w [] \/ G = mkR (inl tt) w []).
    { subst G. destruct (treq_gate_cases m w w) as [[H' _]|H']; auto. }
    destruct HG as [HG|HG]; rewrite HG in *; cbn [rv rw re app] in *; [left; reflexivity|].
    assert (Hw : wr w = true) by (apply I3; unfold alive; stlia).
    pose proof (has_key_below _ _ I2) as Hk.
    rewrite (send_write_new c m w Hr Hw Hrange Hk) in *. cbn [rv rw re] in *.
    right. exists (sent_world c m w), []. cbn zeta.
    split; [reflexivity|]. split; [reflexivity|]. split; [reflexivity|].
    split; [reflexivity|]. split; [reflexivity|]. split; [cbn; apply lookup_app_new; exact Hk|].
    split; [reflexivity|]. apply Hstep.
  - set (w6 := set_role ROLE_INITIATOR (set_st ST_LOGON_SENT w)) in *.
    rewrite send_tail_unfold in *. rewrite bind_unfold in *.
    assert (HG : treq_gate m w w6 = mkR (inl tt) w6 []).
    { apply treq_gate_pass. destruct Hk as [Hk|Hk]; rewrite Hk; discriminate. }
    rewrite HG in *. cbn [rv rw re app] in *.
    assert (Hw : wr w = true) by (apply I3; unfold alive; stlia).
    pose proof (has_key_below _ _ I2) as Hkey.
    rewrite (send_write_new c m w6 Hr Hw Hrange Hkey) in *. cbn [rv rw re] in *.
    right. exists (sent_world c m w6), [State ST_LOGON_SENT]. cbn zeta.
    split; [reflexivity|]. split; [reflexivity|]. split; [reflexivity|].
    split; [reflexivity|]. split; [reflexivity|]. split; [cbn; apply lookup_app_new; exact Hkey|].
    split; [reflexivity|]. apply Hstep.
Qed.

(* ------------------------------------------------------------------ R8a: journal first, then write *)

(* send_msg journals before it writes - for EVERY world, inside or outside the invariant:
   when it raises (refusal, encoding error, journal error, closed writer) nothing was written;
   when it returns, exactly one frame was written and - unless it is one of the unjournaled kinds -
   that frame is in the outbound journal under its own number *)
Lemma send_write_journal_first c m w :
  match rv (send_write c m w) with
  | inr _ => re (send_write c m w) = []
  | inl _ => exists n, re (send_write c m w) = [Wire (mkMsg (mtype m) (wire_tags c n m))]
                       /\ (skip_journal m = false ->
                           In (n, mkMsg (mtype m) (wire_tags c n m)) (j_out (jr (rw (send_write c m w)))))
  end.
Proof.
  unfold send_write. rewrite bind_unfold.
  pose proof (encode_result c m w) as Hr. pose proof (encode_no_events c m w) as He.
  destruct (encode c m w) as [r we ee]. cbn [rv rw re] in *. subst ee.
  destruct r as [[n wm]|x]; cbn [rv rw re app]; [|reflexivity].
  specialize (Hr n wm eq_refl). subst wm. cbn [fst snd].
  rewrite bind_unfold. rewrite journal_step_no_events.
  set (wm := mkMsg (mtype m) (wire_tags c n m)).
  set (J := (if skip_journal m then ret tt else persist_out n wm) we).
  assert (HJ : rv J = inl tt -> skip_journal m = false -> In (n, wm) (j_out (jr (rw J)))).
  { subst J. destruct (skip_journal m); [discriminate 2|]. unfold persist_out.
    destruct (negb _); [discriminate|]. destruct (has_key _ _); [discriminate|].
    intros _ _. cbn. apply in_or_app. right. left. reflexivity. }
  destruct (rv J) as [[]|x]; cbn [rv rw re app]; [|reflexivity].
  msimp. destruct (wr (rw J)); msimp; [|reflexivity].
  exists n. split; [reflexivity|]. apply HJ. reflexivity.
Qed.

Lemma send_tail_journal_first c m w0 w :
  match rv (send_tail c m w0 w) with
  | inr _ => re (send_tail c m w0 w) = []
  | inl _ => exists n, re (send_tail c m w0 w) = [Wire (mkMsg (mtype m) (wire_tags c n m))]
                       /\ (skip_journal m = false ->
                           In (n, mkMsg (mtype m) (wire_tags c n m)) (j_out (jr (rw (send_tail c m w0 w)))))
  end.
Proof.
  rewrite send_tail_unfold, bind_unfold.
  set (G := treq_gate m w0 w).
  assert (HG : G = mkR (inr XConn) w [] \/ G = mkR (inl tt) w []).
  { subst G. destruct (treq_gate_cases m w0 w) as [[H' _]|H']; auto. }
  destruct HG as [HG|HG]; rewrite HG; cbn [rv rw re app]; [reflexivity|].
  pose proof (send_write_journal_first c m w) as H.
  destruct (rv (send_write c m w)); exact H.
Qed.

Lemma send_msg_journal_first c m w :
  match rv (send_msg c m w) with
  | inr _ => wires (re (send_msg c m w)) = []
  | inl _ => exists n, wires (re (send_msg c m w)) = [mkMsg (mtype m) (wire_tags c n m)]
                       /\ (skip_journal m = false ->
                           In (n, mkMsg (mtype m) (wire_tags c n m)) (j_out (jr (rw (send_msg c m w)))))
  end.
Proof.
  unfold send_msg. rewrite bind_unfold. cbn [getw rv rw re app]. rewrite bind_unfold.
  destruct (send_gate_cases2 m w) as [H|[[Hst H]|[H6 [Hk H]]]]; rewrite H; cbn [rv rw re app].
  - reflexivity.
  - pose proof (send_tail_journal_first c m w w) as T.
    destruct (rv (send_tail c m w w)); [|rewrite T; reflexivity].
    destruct T as [n [T1 T2]]. exists n. rewrite T1. split; [reflexivity|exact T2].
  - set (w6 := set_role ROLE_INITIATOR (set_st ST_LOGON_SENT w)).
    pose proof (send_tail_journal_first c m w w6) as T.
    destruct (rv (send_tail c m w w6)); [|rewrite T; reflexivity].
    destruct T as [n [T1 T2]]. exists n. rewrite T1. split; [reflexivity|exact T2].
Qed.

(* ------------------------------------------------------------------ witnesses *)

Definition cfgS : cfg := cfg0.
Definition o_app (id : String.string) := OSend (mkMsg (S "D") [(S "11", S id); (S "55", S "SYM")]).
Arguments o_app id%string.

(* the former D12 witness (repaired in the code): Logon exchange, two application sends (2, 3); the peer asks
   twice for 2..: both requests are answered from the untouched journal, next_num_out stays 4 and the next new
   message is 4 *)
Definition h_resend_twice :=
  [i_logon 1; o_app "A"; o_app "B"; i_resend 2 2 0; i_resend 3 2 0; o_app "C"].

Definition new_numbers (l : list event) : list str :=
  flat_map (fun wm => match get T34 (mtags wm) with Some v => [v] | None => [] end) (news l).

Lemma resend_twice_ok :
  Out_inv w_acceptor /\ Forall (fun s => ~ D20_step s) (run cfgS w_acceptor h_resend_twice)
  /\ new_numbers (trace (run cfgS w_acceptor h_resend_twice)) = [S "1"; S "2"; S "3"; S "4"]
  /\ map fst (j_out (jr (final cfgS w_acceptor h_resend_twice))) = [1; 2; 3; 4]
  /\ length (wires (trace (run cfgS w_acceptor h_resend_twice))) = 8%nat
  /\ st (final cfgS w_acceptor h_resend_twice) = ST_ACTIVE.
Proof.
  split; [repeat split; try constructor; intros; reflexivity|].
  split; [apply c05_classes_forallb; vm_compute; reflexivity|].
  repeat split; vm_compute; reflexivity.
Qed.

(* D20: the application sends a plain SequenceReset numbered next_num_out: it goes out and is journaled under that
   number without consuming it (the invariant breaks).  Since R8a the next new message no longer reaches the wire
   with the same number: its journal write fails BEFORE the write, send_msg raises, nothing is written, the
   application message is lost and its number is burnt (after which counter and journal agree again) *)
Definition o_seqreset (seq new : Z) :=
  OSend (mkMsg (S "4") [(T123, S "Y"); (T34, z_to_dec seq); (T36, z_to_dec new)]).
Definition o_reset (seq new : Z) :=
  OSend (mkMsg (S "4") [(T34, z_to_dec seq); (T36, z_to_dec new)]).
Definition h_app_seqreset := [i_logon 1; o_reset 2 5; o_app "A"].

Lemma app_seqreset_refuted :
  exists c w h,
    Out_inv w
    /\ map (fun wm => get T34 (mtags wm)) (wires (trace (run c w h))) = [Some (S "1"); Some (S "2")]
    /\ (exists s, In s (run c w h) /\ Out_inv (s_before s) /\ ~ Out_inv (s_after s)
                  /\ nout (s_after s) = nout (s_before s) /\ has_key (nout (s_after s)) (j_out (jr (s_after s))) = true)
    /\ (exists s, In s (run c w h) /\ rv (s_res s) = inr XDupSeq /\ s_events s = []
                  /\ nout (s_after s) = nout (s_before s) + 1
                  /\ j_out (jr (s_after s)) = j_out (jr (s_before s))).
Proof.
  exists cfgS, w_acceptor, h_app_seqreset.
  split; [repeat split; try constructor; intros; reflexivity|]. split; [vm_compute; reflexivity|].
  split.
  - eexists (nth 1 (run cfgS w_acceptor h_app_seqreset) (mkS w_acceptor (i_logon 1) (step cfgS (i_logon 1) w_acceptor))).
    split; [right; left; reflexivity|]. split; [|split; [|split]].
    + split; [vm_compute; reflexivity|]. split; [vm_compute; repeat constructor|]. intros _. vm_compute. reflexivity.
    + intros [H _]. vm_compute in H. discriminate.
    + vm_compute. reflexivity.
    + vm_compute. reflexivity.
  - eexists (nth 2 (run cfgS w_acceptor h_app_seqreset) (mkS w_acceptor (i_logon 1) (step cfgS (i_logon 1) w_acceptor))).
    split; [do 2 right; left; reflexivity|]. split; [vm_compute; reflexivity|]. split; [vm_compute; reflexivity|].
    split; vm_compute; reflexivity.
Qed.

(* an application-sent SequenceReset-GapFill or PossDupFlag=Y message is written but not journaled and consumes
   nothing: inside the scope of the partial theorem *)
Definition h_app_gapfill :=
  [i_logon 1; o_seqreset 2 5; OSend (mkMsg (S "D") [(S "11", S "X"); (T43, S "Y"); (T34, S "1")]); o_app "A"].
Lemma app_gapfill_in_scope :
  Forall (fun s => ~ D20_step s) (run cfgS w_acceptor h_app_gapfill)
  /\ new_numbers (trace (run cfgS w_acceptor h_app_gapfill)) = [S "1"; S "2"]
  /\ length (wires (trace (run cfgS w_acceptor h_app_gapfill))) = 4%nat
  /\ map fst (j_out (jr (final cfgS w_acceptor h_app_gapfill))) = [1; 2].
Proof.
  split; [apply c05_classes_forallb; vm_compute; reflexivity|]. repeat split; vm_compute; reflexivity.
Qed.

(* PossResend(97)=Y (like PossDupFlag=N, or a GapFillFlag on a message that is not a SequenceReset) does not make a
   message a retransmission: it is a NEW message - the codec allocates its number, so it must be journaled and counted
   (skip_journal is exactly "PossDupFlag=Y or SequenceReset-GapFill") - and a ResendRequest replays it *)
Definition m_possresend : msg := mkMsg (S "D") [(S "11", S "X"); (S "97", S "Y")].
Lemma possresend_is_new :
  raw_seq m_possresend = false /\ skip_journal m_possresend = false
  /\ skip_journal (mkMsg (S "D") [(S "11", S "X"); (T43, S "N")]) = false
  /\ skip_journal (mkMsg (S "D") [(S "11", S "X"); (T123, S "Y")]) = false
  /\ (let l := run cfgS w_acceptor [i_logon 1; OSend m_possresend; i_resend 2 2 0] in
      new_numbers (trace l) = [S "1"; S "2"]
      /\ map fst (j_out (jr (final cfgS w_acceptor [i_logon 1; OSend m_possresend; i_resend 2 2 0]))) = [1; 2]
      /\ j_sout (jr (final cfgS w_acceptor [i_logon 1; OSend m_possresend; i_resend 2 2 0])) = 2
      /\ map (fun wm => (get T34 (mtags wm), get T43 (mtags wm), get (S "97") (mtags wm))) (wires (trace l))
         = [(Some (S "1"), None, None); (Some (S "2"), None, Some (S "Y")); (Some (S "2"), Some (S "Y"), Some (S "Y"))]).
Proof. cbn zeta. repeat split; vm_compute; reflexivity. Qed.

(* non-vacuity: a session with sends, a served ResendRequest, a heartbeat exchange and a logout stays inside the invariant *)
Definition h_c05_good :=
  [i_logon 1; o_app "A"; i_app 2; i_resend 3 1 0; OTestReq 7; OIn (inbound (S "0") 4 [(T112, S "7")]) 0; i_app 6;
   OIn (inbound (S "1") 5 [(T112, S "X")]) 0; o_app "B"; OIn (inbound (S "5") 6 []) 0; o_app "C"].

Lemma c05_good_in_scope :
  Out_inv w_acceptor /\ I64MIN <= nout w_acceptor /\ nout (final cfgS w_acceptor h_c05_good) <= I64MAX + 1
  /\ Forall (fun s => ~ D20_step s) (run cfgS w_acceptor h_c05_good)
  /\ new_numbers (trace (run cfgS w_acceptor h_c05_good)) = [S "1"; S "2"; S "3"; S "4"; S "5"; S "6"]
  /\ j_sout (jr (final cfgS w_acceptor h_c05_good)) = 6.
Proof.
  split; [repeat split; try constructor; intros; reflexivity|].
  split; [vm_compute; discriminate|]. split; [vm_compute; discriminate|].
  split; [apply c05_classes_forallb; vm_compute; reflexivity|]. split; vm_compute; reflexivity.
Qed.

(* ------------------------------------------------------------------ C04: a detected gap IS requested *)

Lemma send_gate_open m w : gate_refuses m w = false -> rv (send_gate m w w) = inl tt.
Proof.
  unfold gate_refuses, send_gate. intros H.
  destruct (st w <? ST_NCE); [discriminate|]. cbn [orb] in H.
  destruct (st w =? ST_NCE).
  - destruct (mkind m); cbn in H; try discriminate; reflexivity.
  - cbn [andb orb] in H. apply orb_false_iff in H. destruct H as [H1 H2]. rewrite H1, H2. reflexivity.
Qed.

Lemma send_msg_not_refused c m w :
  gate_refuses m w = false -> mkind m <> KTestReq -> rv (send_msg c m w) <> inr XConn.
Proof.
  intros Hg Hk Hx. pose proof (send_msg_conn_free c m w Hx) as Hf.
  unfold send_msg in Hx. rewrite bind_unfold in Hx. cbn [getw rv rw re app] in Hx. rewrite bind_unfold in Hx.
  rewrite (send_gate_open m w Hg) in Hx. cbn [rv rw re] in Hx.
  destruct (send_tail_conn c m w _ Hx) as [Hk' _]. congruence.
Qed.

(* the refusals with FIXConnectionError are exactly the state / role gates and the TestRequest gate *)
Lemma send_msg_conn_iff c m w :
  rv (send_msg c m w) = inr XConn <-> gate_refuses m w = true \/ treq_refuses m w = true.
Proof.
  split.
  - intros Hx. destruct (gate_refuses m w) eqn:Hg; [left; reflexivity|]. right.
    unfold send_msg in Hx. rewrite bind_unfold in Hx. cbn [getw rv rw re app] in Hx. rewrite bind_unfold in Hx.
    pose proof (send_gate_open m w Hg) as Ho.
    destruct (send_gate m w w) as [r wg eg]. cbn [rv rw re] in *. subst r. cbn [rv rw re] in Hx.
    destruct (send_tail_conn c m w wg Hx) as [_ Ht].
    rewrite send_tail_unfold, bind_unfold, treq_gate_spec in Ht.
    destruct (treq_refuses m w); [reflexivity|]. exfalso. cbn [rv rw re app] in Ht.
    apply (send_write_not_conn c m wg). destruct (rv (send_write c m wg)); inversion Ht. reflexivity.
  - intros [H|H]; [rewrite (send_msg_refused c m w H)|rewrite (testrequest_gate c m w H)]; reflexivity.
Qed.

Definition rr_msg (w : world) : msg := mkMsg MT_RESENDREQUEST [(T7, z_to_dec (nin w)); (T16, S_0)].

(* with the outbound invariant (no D20 damage) and an open send gate, _check_seqnum_gaps on a gap
   writes exactly one ResendRequest and the state becomes RESENDREQ_AWAITING *)
Lemma check_gaps_requests c n w :
  Out_inv w -> in_i64 (nout w) = true -> gate_refuses (rr_msg w) w = false ->
  nin w < n -> st w <> ST_AWAITING ->
  exists w' pre rr,
    check_gaps c n w = mkR (inl false) w' (pre ++ [Wire rr; State ST_AWAITING]) /\ wires pre = []
    /\ is_resend rr = true /\ get T7 (mtags rr) = Some (z_to_dec (nin w)) /\ get T16 (mtags rr) = Some S_0
    /\ st w' = ST_AWAITING /\ nin w' = nin w /\ maxres w' = n.
Proof.
  intros Hi Hr Hg Hn Hs.
  unfold check_gaps. rewrite bind_unfold. cbn [getw rv rw re app].
  destruct (nin w <? n) eqn:E; [|lia]. destruct (st w =? ST_AWAITING) eqn:Es; [lia|]. cbn [negb].
  rewrite !bind_unfold. cbn [modw rv rw re app].
  set (w1 := set_maxres n w).
  assert (Hi1 : Out_inv w1) by exact Hi.
  fold (rr_msg w).
  destruct (send_msg_new_cases c (rr_msg w) w1 eq_refl Hi1 Hr) as [Hx|[w' [pre [H1 [H2 [H3 [H4 [H5 [H6 [H7 H8]]]]]]]]]].
  - exfalso. apply (send_msg_not_refused c (rr_msg w) w1); [exact Hg|discriminate|]. rewrite Hx. reflexivity.
  - rewrite H1. cbn [rv rw re app state_set bind modw emit ret]. cbn.
    exists (set_st ST_AWAITING w'), pre, (mkMsg (mtype (rr_msg w)) (wire_tags c (nout w1) (rr_msg w))).
    split; [rewrite <- ?app_assoc; reflexivity|]. split; [exact H2|]. split; [reflexivity|].
    split; [reflexivity|]. split; [reflexivity|]. split; [reflexivity|].
    assert (Hp : pres nin (send_msg c (rr_msg w))) by (apply send_msg_pres; ins_solve).
    assert (Hq : pres maxres (send_msg c (rr_msg w))) by (apply send_msg_pres; ins_solve).
    specialize (Hp w1). specialize (Hq w1). rewrite H1 in Hp, Hq. cbn [rw] in Hp, Hq.
    split; [exact Hp|exact Hq].
Qed.

Definition plain_kind (m : msg) : Prop :=
  mkind m = KApp \/ mkind m = KTestReq \/ mkind m = KHeartbeat \/ mkind m = KResend.

(* C04 (exactly one): a message of a kind without pre-handler, numbered above the expected number, received on a
   connection whose Logon exchange is complete and that is not already awaiting a resend, makes the receiver write exactly one ResendRequest
   from the expected number and wait - provided the outbound side is intact (Out_inv: no D20 damage) *)
Lemma gap_is_requested c m now w n :
  Out_inv w -> in_i64 (nout w) = true -> validate_integrity c m w = VOk -> get_int T34 m = inl n ->
  nin w < n -> st w <> ST_AWAITING -> ST_LOGON_RECV < st w -> gate_refuses (rr_msg w) w = false -> plain_kind m ->
  exists rr, resends (re (process_message c m now w)) = [rr]
             /\ get T7 (mtags rr) = Some (z_to_dec (nin w)) /\ get T16 (mtags rr) = Some S_0
             /\ apps (re (process_message c m now w)) = []
             /\ nin (rw (process_message c m now w)) = nin w
             /\ (st (rw (process_message c m now w)) = ST_AWAITING \/ dead (rw (process_message c m now w))).
Proof.
  intros Hi Hr V Hn Hlt Hs Hst Hg Hk.
  destruct (check_gaps_requests c n w Hi Hr Hg Hlt Hs) as [w' [pre [rr [Hc [Hp [Hrr [H7 [H16 [Hs' [Hn' Hm']]]]]]]]]].
  assert (Hpart : part1 c m w = mkR (inl (Some false)) w' (pre ++ [Wire rr; State ST_AWAITING])).
  { unfold part1. rewrite bind_unfold. cbn [getw rv rw re app].
    destruct (st w <? ST_NCE) eqn:E1; [stlia|].
    assert (early_drop m w = false) as ->
      by (unfold early_drop; destruct (st w =? ST_NCE) eqn:?, (st w =? ST_LOGON_SENT) eqn:?, (st w =? ST_LOGON_RECV) eqn:?;
          try stlia; reflexivity).
    destruct (st w =? ST_NCE) eqn:E2; [stlia|].
    rewrite bind_unfold. unfold pre_handlers. rewrite E2. rewrite bind_unfold. cbn [ret rv rw re app].
    assert (Hpre : (match mkind m with
                    | KLogon => process_logon c m | KSeqReset => process_seqreset c m
                    | KLogout => logout_counted c m | _ => ret tt end) w = mkR (inl tt) w []).
    { destruct Hk as [Hk|[Hk|[Hk|Hk]]]; rewrite Hk; reflexivity. }
    rewrite Hpre. cbn [rv rw re app].
    unfold gap_check. rewrite bind_unfold. cbn [getw rv rw re app].
    destruct (st w <=? ST_DISC_BROKEN) eqn:E3; [stlia|].
    rewrite bind_unfold. rewrite Hn. cbn [lift ret rv rw re app]. rewrite bind_unfold. rewrite Hc.
    cbn [ret rv rw re app]. rewrite app_nil_r. reflexivity. }
  assert (Hpm : exists e2 w2,
            re (process_message c m now w) = (pre ++ [Wire rr; State ST_AWAITING]) ++ e2
            /\ rw (process_message c m now w) = w2 /\ resends e2 = [] /\ apps e2 = []
            /\ nin w2 = nin w' /\ aw_or_dead w2).
  { unfold process_message. rewrite V. rewrite bind_unfold. unfold try_. rewrite Hpart.
    cbn [rv rw re after_part1]. rewrite bind_unfold. unfold try_.
    pose proof (resends_nil _ (dispatch_not_resend c m false w')) as Dr.
    pose proof (dispatch_apps c m false w') as Da.
    pose proof (dispatch_nin c m false w') as Dn.
    pose proof (dispatch_aw c m false w' Hs') as Dw.
    destruct (dispatch c m false w') as [r2 w2 e2]. cbn [rv rw re] in *.
    exists e2, w2. destruct r2; cbn [ret rv rw re]; rewrite ?app_nil_r; repeat split; auto. }
  destruct Hpm as [e2 [w2 [E1 [E2 [Dr [Da [Dn Dw]]]]]]]. rewrite E1, E2.
  assert (Hres : resends (pre ++ [Wire rr; State ST_AWAITING]) = [rr]).
  { rewrite resends_app. unfold resends at 1. rewrite Hp. cbn [filter app]. unfold resends. cbn. rewrite Hrr. reflexivity. }
  assert (Happ : apps (pre ++ [Wire rr; State ST_AWAITING]) = []).
  { rewrite apps_app. cbn.
    assert (apps pre = []); [|rewrite H; reflexivity].
    pose proof (check_gaps_not_app c n w) as Hna. rewrite Hc in Hna. cbn [re] in Hna.
    apply apps_nil in Hna. rewrite apps_app in Hna. apply app_eq_nil in Hna. apply Hna. }
  exists rr.
  split; [rewrite resends_app, Hres, Dr; reflexivity|].
  split; [exact H7|]. split; [exact H16|].
  split; [rewrite apps_app, Happ, Da; reflexivity|].
  split; [rewrite Dn; exact Hn'|].
  destruct Dw as [Dw|Dw]; auto.
Qed.

(* R6a: a journaled application message that itself carries 43=N / 122 is replayed with 43=Y and 122 = its
   original SendingTime (the tags keep their position); the reply is not aborted *)
Definition o_app_pdn := OSend (mkMsg (S "D") [(S "11", S "X"); (T43, S "N"); (T122, S "OLD"); (S "55", S "SYM")]).
Lemma replay_overwrites_possdup :
  let l := run cfgS w_acceptor [i_logon 1; o_app_pdn; i_resend 2 2 0] in
  map (fun wm => (get T34 (mtags wm), get T43 (mtags wm), get T122 (mtags wm))) (wires (trace l))
  = [(Some (S "1"), None, None); (Some (S "2"), Some (S "N"), Some (S "OLD"));
     (Some (S "2"), Some (S "Y"), Some (c_time cfgS))]
  /\ st (final cfgS w_acceptor [i_logon 1; o_app_pdn; i_resend 2 2 0]) = ST_ACTIVE
  /\ new_numbers (trace l) = [S "1"; S "2"].
Proof. cbn zeta. repeat split; vm_compute; reflexivity. Qed.
