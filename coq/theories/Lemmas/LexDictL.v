(* LexDictL: the C19 statements that are re-checked against the two dictionaries on every run
   (tables of coq/gen/GenLex.v, regenerated from tests/FIX44.xml and tests/TT-FIX44.xml by translator/gen_lex.py).
   Kept apart from LexL.v so that a regenerated table does not recompile the language-equality proofs. *)
From Coq Require Import ZArith NArith List Bool Lia.
From AF Require Import Base.Sx Py.Str Fix.Lex Fix.ValidateValue Lemmas.LexL.
From AFGen Require Import GenLex.
Import ListNotations.
Open Scope N_scope.

(* ================================================================ the two dictionaries (regenerated every run) *)

Definition all_fields := fields_fix44 ++ fields_tt.
Definition all_types := types_fix44 ++ types_tt.
Definition mk (x : list N * list N * list (list N)) : field := mkField (fst (fst x)) (snd (fst x)) (snd x).

(* every datatype name used by either dictionary is the name of a FIX 4.4 datatype with a lexical space *)
Lemma dictionary_types_covered :
  forall n, In n all_types -> exists d, datatype_of_name n = Some d.
Proof.
  assert (H : forallb (fun n => match datatype_of_name n with Some _ => true | None => false end) all_types = true)
    by (vm_compute; reflexivity).
  intros n Hn. rewrite forallb_forall in H. specialize (H n Hn). destruct (datatype_of_name n) as [d|]; [eauto | discriminate].
Qed.

(* ... and every field's type is one of those names *)
Lemma dictionary_field_types : forall x, In x all_fields -> In (snd (fst x)) all_types.
Proof.
  assert (H : forallb (fun x => mem_str (snd (fst x)) all_types) all_fields = true) by (vm_compute; reflexivity).
  intros x Hx. rewrite forallb_forall in H. apply mem_str_In. exact (H x Hx).
Qed.

(* every enumerator of every enumerated field is non-empty and accepted *)
Lemma dictionary_enumerators_accepted :
  forall x v, In x all_fields -> In v (snd x) -> v <> [] /\ validate_value (mk x) v = Accept false.
Proof.
  assert (H : forallb (fun x => forallb (fun v => negb (is_nil v) && accepted (validate_value (mk x) v)) (snd x)) all_fields = true)
    by (vm_compute; reflexivity).
  intros x v Hx Hv. rewrite forallb_forall in H. specialize (H x Hx). rewrite forallb_forall in H. specialize (H v Hv).
  apply andb_prop in H. destruct H as [H1 H2]. split.
  - destruct v; [discriminate | discriminate].
  - unfold accepted in H2. destruct (validate_value (mk x) v) as [[|]|]; try discriminate. reflexivity.
Qed.

(* tag 16 is EndSeqNo, a SEQNUM, in both dictionaries: the special case only adds "0 = infinity" to that field *)
Lemma dictionary_tag16_is_seqnum :
  forall x, In x all_fields -> fst (fst x) = TAG_16 -> snd (fst x) = n_SEQNUM /\ snd x = [].
Proof.
  assert (H : forallb (fun x => implb (str_eqb (fst (fst x)) TAG_16) (str_eqb (snd (fst x)) n_SEQNUM && is_nil (snd x))) all_fields = true)
    by (vm_compute; reflexivity).
  intros x Hx Ht. rewrite forallb_forall in H. specialize (H x Hx). destruct x as [[t ty] vs]. cbn [fst snd] in *.
  subst t. rewrite str_eqb_refl in H. cbn [implb] in H.
  apply andb_prop in H. destruct H as [H1 H2]. apply str_eqb_eq in H1. split; [exact H1|]. destruct vs; [reflexivity | discriminate].
Qed.

Lemma dictionary_sizes : (length fields_fix44 >= 100)%nat /\ (length fields_tt >= 100)%nat.
Proof. split; vm_compute; lia. Qed.

