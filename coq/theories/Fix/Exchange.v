(* Reference exchange for C17 and the product system  order object || exchange.

   The exchange follows the FIX 4.4 order state change matrices (Volume 4, appendix D) for one
   order: it receives NewOrderSingle / OrderCancelRequest / OrderCancelReplaceRequest from a FIFO
   queue and emits ExecutionReports and OrderCancelRejects into a FIFO queue.
     * x_base is the order's own status (CREATED = nothing received yet, PENDING_NEW = received and
       not yet acknowledged, NEW, PARTIALLY_FILLED, FILLED, CANCELED, REJECTED, EXPIRED, SUSPENDED);
     * a received, unanswered cancel / replace request is x_pend; while it is there every report
       carries OrdStatus PENDING_CANCEL / PENDING_REPLACE (FIX precedence rule: pending states
       outrank every other status; matrices B.1.c, C.1.b);
     * every received request is answered exactly once: accepted (CANCELED / REPLACED report with
       ClOrdID = the request's id, OrigClOrdID = the replaced id) or refused (OrderCancelReject
       carrying the order's own status x_base);
     * reports about the order carry the ClOrdID under which it is live; a REPLACED report carries
       Price and OrderQty; a replace to a quantity at or below CumQty amends the quantity to CumQty
       (matrices C.3.b, C.3.c);
     * fills are chosen by the environment (quantity 0 < f <= leaves, resulting average price: any
       number - the order object only copies AvgPx);
     * a request that names a ClOrdID that is not live, or arrives while another is pending, is
       dropped (C17_requests_wellformed shows this never happens with this client).
   No proofs in this file. *)
From Coq Require Import ZArith NArith List Bool.
From AF Require Import Base.Sx Py.Str Fix.OrderStatus Fix.Order.
Import ListNotations.
Open Scope N_scope.

Definition X_NEW := 48.  Definition X_CANCELED := 52.  Definition X_PENDING_CANCEL := 54.
Definition X_REJECTED := 56.  Definition X_SUSPENDED := 57.  Definition X_PENDING_NEW := 65.
Definition X_EXPIRED := 67.  Definition X_PENDING_REPLACE := 69.  Definition X_TRADE := 70.

Inductive pkind := PCancel | PReplace.
Record preq := mkP { p_kind : pkind; p_clid : str; p_orig : str; p_px : Z; p_qty : Z }.

Record exch := mkX {
  x_base : N;
  x_clord : str;
  x_oid : str;
  x_price : Z; x_qty : Z; x_cum : Z; x_leaves : Z; x_avg : Z;
  x_pend : option preq;
  x_nrep : N                 (* number of reports emitted so far *)
}.

Definition init_exch (oid : str) : exch := mkX CREATED [] oid 0 0 0 0 0 None 0.

Definition pend_status (p : preq) : N :=
  match p_kind p with PCancel => PENDING_CANCEL | PReplace => PENDING_REPLACE end.

(* the status the exchange reports *)
Definition x_status (x : exch) : N :=
  match x_pend x with Some p => pend_status p | None => x_base x end.

Definition is_live (b : N) : bool := mem b [NEW; PARTIALLY_FILLED; SUSPENDED].
Definition is_working (b : N) : bool := mem b [NEW; PARTIALLY_FILLED].

Definition set_book (x : exch) (base : N) (cum leaves avg : Z) : exch :=
  mkX base (x_clord x) (x_oid x) (x_price x) (x_qty x) cum leaves avg (x_pend x) (x_nrep x).
Definition set_pend (x : exch) (p : option preq) : exch :=
  mkX (x_base x) (x_clord x) (x_oid x) (x_price x) (x_qty x) (x_cum x) (x_leaves x) (x_avg x) p (x_nrep x).
Definition set_clord (x : exch) (c : str) : exch :=
  mkX (x_base x) c (x_oid x) (x_price x) (x_qty x) (x_cum x) (x_leaves x) (x_avg x) (x_pend x) (x_nrep x).
Definition set_terms (x : exch) (px qty : Z) : exch :=
  mkX (x_base x) (x_clord x) (x_oid x) px qty (x_cum x) (x_leaves x) (x_avg x) (x_pend x) (x_nrep x).
Definition bump (x : exch) : exch :=
  mkX (x_base x) (x_clord x) (x_oid x) (x_price x) (x_qty x) (x_cum x) (x_leaves x) (x_avg x) (x_pend x)
      (x_nrep x + 1).

(* an execution report describing the (already updated) book x *)
Definition exec_of (x : exch) (clid : str) (orig : option str) (ex : N) (terms : bool) : rep :=
  RExec (mkE clid orig (x_oid x) ex (x_status x) (x_cum x) (x_leaves x) (x_avg x)
             (if terms then Some (x_price x) else None) (if terms then Some (x_qty x) else None)).

Definition emit (x : exch) (clid : str) (orig : option str) (ex : N) (terms : bool) : option (exch * rep) :=
  Some (bump x, exec_of x clid orig ex terms).

(* ---------- receiving a request (silent) *)
Definition xrecv (x : exch) (r : req) : exch :=
  match r with
  | RNew id px qty =>
      if x_base x =? CREATED
      then mkX PENDING_NEW id (x_oid x) px qty 0 0 0 None (x_nrep x)
      else x
  | RCancel id orig qty =>
      match x_pend x with
      | None => if negb (x_base x =? CREATED) && str_eqb orig (x_clord x)
                then set_pend x (Some (mkP PCancel id orig 0 qty)) else x
      | Some _ => x
      end
  | RReplace id orig px qty =>
      match x_pend x with
      | None => if negb (x_base x =? CREATED) && str_eqb orig (x_clord x)
                then set_pend x (Some (mkP PReplace id orig px qty)) else x
      | Some _ => x
      end
  end.

(* ---------- actions of the exchange that emit one report; None = not enabled *)
Inductive xact :=
| XPendNew | XAck | XRejNew
| XFill (f avg : Z)
| XPendAck | XAcceptCxl | XAcceptRpl | XRejReq
| XCancelUnsol | XExpire | XSuspend | XResume.

Definition open_status (cum : Z) : N := if (cum =? 0)%Z then NEW else PARTIALLY_FILLED.

Definition xstep (x : exch) (a : xact) : option (exch * rep) :=
  match a with
  | XPendNew =>
      if x_base x =? PENDING_NEW then emit x (x_clord x) None X_PENDING_NEW false else None
  | XAck =>
      if x_base x =? PENDING_NEW
      then emit (set_book x NEW 0 (x_qty x) 0) (x_clord x) None X_NEW false else None
  | XRejNew =>
      if x_base x =? PENDING_NEW
      then emit (set_book x REJECTED 0 0 0) (x_clord x) None X_REJECTED false else None
  | XFill f avg =>
      if is_working (x_base x) && (0 <? f)%Z && (f <=? x_leaves x)%Z then
        let cum := (x_cum x + f)%Z in
        let leaves := (x_leaves x - f)%Z in
        let base := if (leaves =? 0)%Z then FILLED else PARTIALLY_FILLED in
        emit (set_book x base cum leaves avg) (x_clord x) None X_TRADE false
      else None
  | XPendAck =>
      match x_pend x with
      | Some p =>
          emit x (p_clid p) (Some (p_orig p))
               (match p_kind p with PCancel => X_PENDING_CANCEL | PReplace => X_PENDING_REPLACE end) false
      | None => None
      end
  | XAcceptCxl =>
      match x_pend x with
      | Some p =>
          match p_kind p with
          | PCancel =>
              if is_live (x_base x) then
                let x1 := set_clord (set_pend (set_book x CANCELED (x_cum x) 0 (x_avg x)) None) (p_clid p) in
                emit x1 (p_clid p) (Some (p_orig p)) X_CANCELED false
              else None
          | PReplace => None
          end
      | None => None
      end
  | XAcceptRpl =>
      match x_pend x with
      | Some p =>
          match p_kind p with
          | PReplace =>
              if (0 <? p_qty p)%Z && (0 <? p_px p)%Z
                 && (is_live (x_base x) || ((x_base x =? FILLED) && (x_cum x <? p_qty p)%Z)) then
                let qty := Z.max (p_qty p) (x_cum x) in
                let leaves := (qty - x_cum x)%Z in
                let base := if x_base x =? SUSPENDED then SUSPENDED
                            else if (x_cum x =? 0)%Z then NEW
                            else if (leaves =? 0)%Z then FILLED else PARTIALLY_FILLED in
                let x1 := set_clord (set_pend (set_terms (set_book x base (x_cum x) leaves (x_avg x))
                                                         (p_px p) qty) None) (p_clid p) in
                emit x1 (p_clid p) (Some (p_orig p)) X_REPLACED true
              else None
          | PCancel => None
          end
      | None => None
      end
  | XRejReq =>
      match x_pend x with
      | Some p => let x1 := set_pend x None in Some (bump x1, RRej (p_clid p) (p_orig p) (x_base x))
      | None => None
      end
  | XCancelUnsol =>
      if is_live (x_base x)
      then emit (set_book x CANCELED (x_cum x) 0 (x_avg x)) (x_clord x) None X_CANCELED false else None
  | XExpire =>
      if is_live (x_base x)
      then emit (set_book x EXPIRED (x_cum x) 0 (x_avg x)) (x_clord x) None X_EXPIRED false else None
  | XSuspend =>
      if is_working (x_base x)
      then emit (set_book x SUSPENDED (x_cum x) (x_leaves x) (x_avg x)) (x_clord x) None X_SUSPENDED false
      else None
  | XResume =>
      if x_base x =? SUSPENDED
      then emit (set_book x (open_status (x_cum x)) (x_cum x) (x_leaves x) (x_avg x)) (x_clord x) None X_NEW false
      else None
  end.

(* ------------------------------------------------------------------ product system *)

Record sys := mkS { s_o : order; s_x : exch; s_c2x : list req; s_x2c : list rep }.

Inductive act :=
| ANew | ACancel | AReplace (px qty : option Z)     (* the client calls a request builder *)
| ADeliver                                            (* the client processes the oldest report *)
| XRecv                                               (* the exchange takes the oldest request *)
| XDo (a : xact).                                     (* the exchange acts and reports *)

Definition send (s : sys) (ob : order * res req) : sys :=
  match snd ob with
  | Ok r => mkS (fst ob) (s_x s) (s_c2x s ++ [r]) (s_x2c s)
  | Exc _ => mkS (fst ob) (s_x s) (s_c2x s) (s_x2c s)
  end.

Definition step (legacy : bool) (s : sys) (a : act) : sys :=
  match a with
  | ANew => send s (new_req (s_o s))
  | ACancel => send s (cancel_req (s_o s))
  | AReplace px qty => send s (replace_req (s_o s) px qty)
  | ADeliver =>
      match s_x2c s with
      | [] => s
      | r :: q => mkS (fst (process_report legacy (s_o s) r)) (s_x s) (s_c2x s) q
      end
  | XRecv =>
      match s_c2x s with
      | [] => s
      | r :: q => mkS (s_o s) (xrecv (s_x s) r) q (s_x2c s)
      end
  | XDo a =>
      match xstep (s_x s) a with
      | Some (x', r) => mkS (s_o s) x' (s_c2x s) (s_x2c s ++ [r])
      | None => s
      end
  end.

Definition run_from (legacy : bool) (s : sys) (acts : list act) : sys := fold_left (step legacy) acts s.
Definition init_sys (o : order) (oid : str) : sys := mkS o (init_exch oid) [] [].

(* ------------------------------------------------------------------ known-finding classes *)

(* K2: the exchange expires the order while it is suspended and no request is pending there
       (the SUSPENDED row of change_status refuses EXPIRED: the object stays SUSPENDED for ever).
   K3: the exchange accepts a replace request while the order is suspended (the REPLACED row of
       PENDING_REPLACE refuses SUSPENDED: the object stays PENDING_REPLACE for ever). *)
Definition bad_step (s : sys) (a : act) : bool :=
  match a with
  | XDo XExpire =>
      (x_base (s_x s) =? SUSPENDED) && match x_pend (s_x s) with None => true | Some _ => false end
  | XDo XAcceptRpl =>
      (x_base (s_x s) =? SUSPENDED) && match xstep (s_x s) XAcceptRpl with Some _ => true | None => false end
  | _ => false
  end.

Fixpoint kf_hit (legacy : bool) (s : sys) (acts : list act) : bool :=
  match acts with
  | [] => false
  | a :: acts' => bad_step s a || kf_hit legacy (step legacy s a) acts'
  end.

Definition quiescent (s : sys) : bool :=
  match s_c2x s, s_x2c s with [], [] => true | _, _ => false end.
