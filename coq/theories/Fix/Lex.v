(* Lex: SPECIFICATION of the FIX 4.4 datatype lexical spaces (Volume 1, "FIX datatypes"), written from the
   standard and independent of asyncfix: one boolean recogniser per datatype over [str = list N] (code points),
   the FIX datatype of each dictionary type name, and the class predicates of the known findings of C19.
   Field values are never empty on the wire ("tag=" without value is malformed), so no lexical space contains [].
   No proofs here. *)
From Coq Require Import ZArith NArith List Bool.
From AF Require Import Base.Sx.
Import ListNotations.
Open Scope N_scope.

(* ---------------------------------------------------------------- characters *)
Definition dig (c : N) : bool := (48 <=? c) && (c <=? 57).                       (* ASCII "0".."9" *)
Definition alnum (c : N) : bool :=
  dig c || ((65 <=? c) && (c <=? 90)) || ((97 <=? c) && (c <=? 122)).            (* ASCII letters and digits *)
Definition nonempty (s : str) : bool := match s with [] => false | _ => true end.

(* [0-9]+ and its decimal value *)
Definition digs (s : str) : bool := nonempty s && forallb dig s.
Definition num (s : str) : N := fold_left (fun a c => 10 * a + (c - 48)) s 0.

(* ---------------------------------------------------------------- int and its subtypes *)
(* int: "Sequence of digits without commas or decimals and optional sign character (ASCII characters "-" and
   "0" - "9").  ... int values may contain leading zeros". *)
Definition unsigned (s : str) : str := match s with 45 :: r => r | _ => s end.
Definition is_neg (s : str) : bool := match s with 45 :: _ => true | _ => false end.
Definition lex_int (s : str) : bool := digs (unsigned s).
Definition int_value (s : str) : Z :=
  if is_neg s then (- Z.of_N (num (unsigned s)))%Z else Z.of_N (num (unsigned s)).

(* Length, NumInGroup, SeqNum: "int field ... Value must be positive." *)
Definition lex_positive (s : str) : bool := lex_int s && (0 <? int_value s)%Z.
(* DayOfMonth: "int field representing a day during a particular month (values 1 to 31)." *)
Definition lex_dayofmonth (s : str) : bool := lex_int s && (1 <=? int_value s)%Z && (int_value s <=? 31)%Z.

(* ---------------------------------------------------------------- float and its subtypes *)
(* float: "Sequence of digits with optional decimal point and sign character (ASCII characters "-", "0" - "9"
   and ".") ... may contain leading zeros ... may contain or omit trailing zeros"; Percentage is introduced with
   the example ".05".  Qty, Price, PriceOffset, Amt, Percentage are "float field"s. *)
Definition count_dots (s : str) : nat := length (filter (N.eqb 46) s).
Definition lex_float (s : str) : bool :=
  let u := unsigned s in
  forallb (fun c => dig c || (c =? 46)) u && existsb dig u && (count_dots u <=? 1)%nat.

(* ---------------------------------------------------------------- char, Boolean, String and its subtypes *)
(* char: "Single character value, can include any alphanumeric character or punctuation except the delimiter." *)
Definition lex_char (s : str) : bool := match s with [c] => negb (c =? 1) | _ => false end.
(* Boolean: "char field containing one of two values: 'Y' = True/Yes, 'N' = False/No" *)
Definition lex_boolean (s : str) : bool := match s with [c] => (c =? 89) || (c =? 78) | _ => false end.
(* String: "Alpha-numeric free format strings, can include any character or punctuation except the delimiter." *)
Definition lex_string (s : str) : bool := nonempty s && negb (existsb (N.eqb 1) s).
(* MultipleValueString: "string field containing one or more space delimited values": no value is empty, i.e. no
   leading, trailing or doubled space.  [after_space] = we are at the start of a value. *)
Fixpoint values_ok (after_space : bool) (s : str) : bool :=
  match s with
  | [] => negb after_space
  | c :: r => if c =? 32 then negb after_space && values_ok true r else values_ok false r
  end.
Definition lex_multi (s : str) : bool := lex_string s && values_ok true s.
(* Country / Currency / Exchange: "string field representing a country using ISO 3166 Country code (2 character)",
   "... ISO 4217 Currency code (3 character)", "... ISO 10383 Market Identifier Code (MIC)" (4 character):
   alphanumeric codes of bounded length (the property asks for the bound, not for the code lists). *)
Definition lex_code (n : nat) (s : str) : bool := nonempty s && (length s <=? n)%nat && forallb alnum s.

(* ---------------------------------------------------------------- calendar *)
Definition leap_year (y : N) : bool := (y mod 400 =? 0) || ((y mod 4 =? 0) && negb (y mod 100 =? 0)).
Definition days_in_month (y m : N) : N :=
  if m =? 2 then (if leap_year y then 29 else 28)
  else if (m =? 4) || (m =? 6) || (m =? 9) || (m =? 11) then 30 else 31.
Definition valid_month (m : N) : bool := (1 <=? m) && (m <=? 12).
Definition valid_day (y m d : N) : bool := (1 <=? d) && (d <=? days_in_month y m).

(* UTCDateOnly, LocalMktDate: "YYYYMMDD; YYYY = 0000-9999, MM = 01-12, DD = 01-31" with a day that exists *)
Definition lex_date (s : str) : bool :=
  match s with
  | [y1; y2; y3; y4; m1; m2; d1; d2] =>
      forallb dig s && valid_month (num [m1; m2]) && valid_day (num [y1; y2; y3; y4]) (num [m1; m2]) (num [d1; d2])
  | _ => false
  end.

(* UTCTimeOnly: "HH:MM:SS or HH:MM:SS.sss; HH = 00-23, MM = 00-59, SS = 00-60 (60 only if UTC leap second),
   sss = 000-999", "colons ... and period required" *)
Definition lex_millis (f : str) : bool :=
  match f with
  | [] => true
  | [p; a; b; c] => (p =? 46) && dig a && dig b && dig c
  | _ => false
  end.
Definition lex_time (s : str) : bool :=
  match s with
  | h1 :: h2 :: c1 :: m1 :: m2 :: c2 :: s1 :: s2 :: f =>
      forallb dig [h1; h2; m1; m2; s1; s2] && (c1 =? 58) && (c2 =? 58)
      && (num [h1; h2] <=? 23) && (num [m1; m2] <=? 59) && (num [s1; s2] <=? 60) && lex_millis f
  | _ => false
  end.

(* UTCTimestamp: "YYYYMMDD-HH:MM:SS or YYYYMMDD-HH:MM:SS.sss", "colons, dash, and period required" *)
Definition lex_timestamp (s : str) : bool :=
  match s with
  | y1 :: y2 :: y3 :: y4 :: m1 :: m2 :: d1 :: d2 :: dash :: t =>
      lex_date [y1; y2; y3; y4; m1; m2; d1; d2] && (dash =? 45) && lex_time t
  | _ => false
  end.

(* month-year: "YYYYMM, YYYYMMDD, YYYYMMWW; YYYY = 0000-9999; MM = 01-12; DD = 01-31; WW = w1, w2, w3, w4, w5" *)
Definition lex_monthyear (s : str) : bool :=
  match s with
  | [y1; y2; y3; y4; m1; m2] => forallb dig s && valid_month (num [m1; m2])
  | [y1; y2; y3; y4; m1; m2; a; b] =>
      forallb dig [y1; y2; y3; y4; m1; m2] && valid_month (num [m1; m2])
      && ((dig a && dig b && valid_day (num [y1; y2; y3; y4]) (num [m1; m2]) (num [a; b]))
          || ((a =? 119) && (49 <=? b) && (b <=? 53)))
  | _ => false
  end.

(* data: "string field containing raw data with no format or content restrictions" *)
Definition lex_data (s : str) : bool := nonempty s.

(* ---------------------------------------------------------------- the datatypes and their dictionary names *)
Inductive datatype :=
| DInt | DLength | DNumInGroup | DSeqNum | DDayOfMonth
| DFloat | DQty | DPrice | DPriceOffset | DAmt | DPercentage
| DChar | DBoolean | DString | DMultipleValueString | DCountry | DCurrency | DExchange
| DMonthYear | DUTCTimestamp | DUTCTimeOnly | DUTCDateOnly | DLocalMktDate | DData.

Definition lex (d : datatype) (s : str) : bool :=
  match d with
  | DInt => lex_int s
  | DLength | DNumInGroup | DSeqNum => lex_positive s
  | DDayOfMonth => lex_dayofmonth s
  | DFloat | DQty | DPrice | DPriceOffset | DAmt | DPercentage => lex_float s
  | DChar => lex_char s
  | DBoolean => lex_boolean s
  | DString => lex_string s
  | DMultipleValueString => lex_multi s
  | DCountry => lex_code 2 s
  | DCurrency => lex_code 3 s
  | DExchange => lex_code 4 s
  | DMonthYear => lex_monthyear s
  | DUTCTimestamp => lex_timestamp s
  | DUTCTimeOnly => lex_time s
  | DUTCDateOnly | DLocalMktDate => lex_date s
  | DData => lex_data s
  end.

(* upper-case type names as they appear in QuickFIX-style dictionaries; TT's dictionary spells the multiple
   value type MULTIPLESTRINGVALUE *)
Definition datatype_names : list (str * datatype) :=
  [ ([73;78;84], DInt);                                                       (* INT *)
    ([76;69;78;71;84;72], DLength);                                           (* LENGTH *)
    ([78;85;77;73;78;71;82;79;85;80], DNumInGroup);                           (* NUMINGROUP *)
    ([83;69;81;78;85;77], DSeqNum);                                           (* SEQNUM *)
    ([68;65;89;79;70;77;79;78;84;72], DDayOfMonth);                           (* DAYOFMONTH *)
    ([70;76;79;65;84], DFloat);                                               (* FLOAT *)
    ([81;84;89], DQty);                                                       (* QTY *)
    ([80;82;73;67;69], DPrice);                                               (* PRICE *)
    ([80;82;73;67;69;79;70;70;83;69;84], DPriceOffset);                       (* PRICEOFFSET *)
    ([65;77;84], DAmt);                                                       (* AMT *)
    ([80;69;82;67;69;78;84;65;71;69], DPercentage);                           (* PERCENTAGE *)
    ([67;72;65;82], DChar);                                                   (* CHAR *)
    ([66;79;79;76;69;65;78], DBoolean);                                       (* BOOLEAN *)
    ([83;84;82;73;78;71], DString);                                           (* STRING *)
    ([77;85;76;84;73;80;76;69;86;65;76;85;69;83;84;82;73;78;71], DMultipleValueString);   (* MULTIPLEVALUESTRING *)
    ([77;85;76;84;73;80;76;69;83;84;82;73;78;71;86;65;76;85;69], DMultipleValueString);   (* MULTIPLESTRINGVALUE *)
    ([67;79;85;78;84;82;89], DCountry);                                       (* COUNTRY *)
    ([67;85;82;82;69;78;67;89], DCurrency);                                   (* CURRENCY *)
    ([69;88;67;72;65;78;71;69], DExchange);                                   (* EXCHANGE *)
    ([77;79;78;84;72;89;69;65;82], DMonthYear);                               (* MONTHYEAR *)
    ([85;84;67;84;73;77;69;83;84;65;77;80], DUTCTimestamp);                   (* UTCTIMESTAMP *)
    ([85;84;67;84;73;77;69;79;78;76;89], DUTCTimeOnly);                       (* UTCTIMEONLY *)
    ([85;84;67;68;65;84;69;79;78;76;89], DUTCDateOnly);                       (* UTCDATEONLY *)
    ([76;79;67;65;76;77;75;84;68;65;84;69], DLocalMktDate);                   (* LOCALMKTDATE *)
    ([68;65;84;65], DData) ].                                                 (* DATA *)

Definition code_eqb (a b : str) : bool :=
  (length a =? length b)%nat && forallb (fun p => N.eqb (fst p) (snd p)) (combine a b).

Fixpoint assoc_name (n : str) (l : list (str * datatype)) : option datatype :=
  match l with
  | [] => None
  | (k, d) :: r => if code_eqb n k then Some d else assoc_name n r
  end.
Definition datatype_of_name (n : str) : option datatype := assoc_name n datatype_names.

(* ---------------------------------------------------------------- known-finding classes of C19
   Each class is decided on (datatype, string) alone; [kf d s = true] is meant to hold exactly where the
   validator of the patched library and [lex d] differ (proved in Lemmas/LexL.v, stated in Props/C19.v). *)

(* C19-huge-number: a member of an int space with more than 4300 digits (CPython's int() refuses to convert it), a
   member of a float space whose magnitude is >= 2^1024 - 2^970 (float() yields inf, refused as non finite) *)
Definition FLOAT_INF : N := 2 ^ 1024 - 2 ^ 970.
Fixpoint after_dot (s : str) : str :=
  match s with [] => [] | c :: r => if c =? 46 then r else after_dot r end.
Definition too_many_digits (s : str) : bool := 4300 <? N.of_nat (length (filter dig s)).
Definition float_overflows (s : str) : bool :=
  FLOAT_INF * 10 ^ N.of_nat (length (after_dot s)) <=? num (filter dig s).
(* C19-equals-sign-refused *)
Definition has_equals (s : str) : bool := existsb (N.eqb 61) s.
(* C19-year-0000-refused, C19-leap-second-refused *)
Definition year0 (s : str) : bool :=
  match s with a :: b :: c :: d :: _ => (a =? 48) && (b =? 48) && (c =? 48) && (d =? 48) | _ => false end.
Definition second60 (t : str) : bool :=      (* t = HH:MM:SS... *)
  match t with _ :: _ :: _ :: _ :: _ :: _ :: s1 :: s2 :: _ => (s1 =? 54) && (s2 =? 48) | _ => false end.
(* C19-microseconds-accepted: a valid value with milliseconds followed by three more digits *)
Definition micros (valid : str -> bool) (base_len : nat) (s : str) : bool :=
  (length s =? base_len + 3)%nat && forallb dig (skipn base_len s) && valid (firstn base_len s).

Definition kf (d : datatype) (s : str) : bool :=
  match d with
  | DInt | DNumInGroup | DSeqNum | DDayOfMonth => lex d s && too_many_digits s
  | DLength => nonempty s && negb (lex d s)               (* C19-length-unchecked: everything is accepted *)
  | DFloat | DQty | DPrice | DPriceOffset | DAmt | DPercentage => lex d s && float_overflows s
  | DChar | DString | DMultipleValueString => lex d s && has_equals s
  | DMonthYear | DUTCDateOnly | DLocalMktDate => lex d s && year0 s
  | DUTCTimestamp =>
      (lex_timestamp s && (year0 s || second60 (skipn 9 s)))
      || micros (fun b => lex_timestamp b && negb (year0 b) && negb (second60 (skipn 9 b))) 21 s
  | DUTCTimeOnly =>
      (lex_time s && second60 s) || micros (fun b => lex_time b && negb (second60 b)) 12 s
  | DBoolean | DCountry | DCurrency | DExchange | DData => false
  end.
